#!/venv/bin/python
"""Systematic operator-level mutation sweep (used to find weak spots of the
checks; not part of any registered check).

  tools/mutsweep.py list                      -> /var/tmp/mutsweep/mutants.json
  tools/mutsweep.py filter  [--jobs 8]        -> marks mutants that pass the repo suite
  tools/mutsweep.py run N [--seed S] [--jobs 2]  -> run all quick checks on N random survivors
  tools/mutsweep.py report
Scratch copies live under /var/tmp/mutsweep and are removed after use.
"""
import json
import os
import random
import re
import shutil
import subprocess
import sys
import tempfile
from concurrent.futures import ThreadPoolExecutor

ROOT = os.path.dirname(os.path.dirname(os.path.abspath(__file__)))
WORK = '/var/tmp/mutsweep'
FILES = ['tapescript/functions.py', 'tapescript/parsing.py',
         'tapescript/tools.py', 'tapescript/classes.py', 'tapescript/AMHL.py']
PROPS = [f'C{i:02d}' for i in range(1, 21)]

RULES = [
    (r'(?<![<>=!])<=(?!=)', '<'), (r'(?<![<>=!])>=(?!=)', '>'),
    (r'(?<![<>=!\-])<(?![<=])', '<='), (r'(?<![<>=!\-])>(?![>=])', '>='),
    (r'==', '!='), (r'!=', '=='),
    (r'\band\b', 'or'), (r'\bor\b', 'and'),
    (r'\bnot ', ''), (r'\bTrue\b', 'False'), (r'\bFalse\b', 'True'),
    (r'\+ 1\b', '+ 0'), (r'- 1\b', '- 0'), (r'\+= 1\b', '+= 2'),
    (r'\b0\b', '1'), (r'\b1\b', '2'), (r'\b2\b', '3'), (r'\b32\b', '31'),
    (r'\b64\b', '65'), (r'\b255\b', '254'), (r'\b256\b', '255'),
    (r"'big'", "'little'"), (r'\[0\]', '[-1]'), (r'\[-1\]', '[0]'),
    (r'\.get\(\)', '.peek()'), (r'\bbreak\b', 'pass'),
    (r'\bcontinue\b', 'pass'),
]


def list_mutants():
    out = []
    for f in FILES:
        src = open(os.path.join('/repo', f)).read().split('\n')
        in_doc = False
        for ln, line in enumerate(src):
            s = line.strip()
            q = s.count('"""')
            if in_doc:
                if q % 2:
                    in_doc = False
                continue
            if q % 2:
                in_doc = True
                continue
            if not s or s.startswith('#') or s.startswith(('import ', 'from ')):
                continue
            if s.startswith(("'", '"', 'f"', "f'")):
                continue
            code = line.split(' # ')[0]
            for pat, rep in RULES:
                for m in re.finditer(pat, code):
                    # skip matches inside string literals (rough)
                    pre = code[:m.start()]
                    if pre.count("'") % 2 or pre.count('"') % 2:
                        continue
                    new = code[:m.start()] + rep + code[m.end():] + \
                        line[len(code):]
                    out.append({'file': f, 'line': ln, 'old': line,
                                'new': new, 'rule': f'{pat}->{rep}'})
    os.makedirs(WORK, exist_ok=True)
    json.dump(out, open(os.path.join(WORK, 'mutants.json'), 'w'), indent=0)
    print(len(out), 'mutants')


def make_copy(m):
    d = tempfile.mkdtemp(prefix='m-', dir=WORK)
    subprocess.run(f'git -C /repo archive HEAD | tar -x -C {d}', shell=True,
                   check=True)
    p = os.path.join(d, m['file'])
    src = open(p).read().split('\n')
    assert src[m['line']] == m['old']
    src[m['line']] = m['new']
    open(p, 'w').write('\n'.join(src))
    return d


def suite_ok(m):
    d = make_copy(m)
    try:
        r = subprocess.run(['/venv/bin/python', '-m', 'pytest', '-q', '-x',
                            '-p', 'no:cacheprovider', '--timeout=120',
                            '--deselect', 'tests/test_parsing.py::TestParsing::test_add_opcode_parsing_handlers_e2e',
                            '--deselect', 'tests/test_tools.py::TestTools::test_add_soft_fork_e2e',
                            '--deselect', 'tests/test_tools.py::TestTools::test_add_soft_fork_merklized_script_e2e'],
                           cwd=d, capture_output=True, text=True, timeout=600)
        return r.returncode == 0
    except subprocess.TimeoutExpired:
        return False
    finally:
        shutil.rmtree(d, ignore_errors=True)


def do_filter(jobs):
    ms = json.load(open(os.path.join(WORK, 'mutants.json')))
    todo = [m for m in ms if 'suite_ok' not in m]
    print('filtering', len(todo))

    def one(m):
        m['suite_ok'] = suite_ok(m)
        return m
    with ThreadPoolExecutor(jobs) as ex:
        for k, _ in enumerate(ex.map(one, todo)):
            if k % 50 == 0:
                json.dump(ms, open(os.path.join(WORK, 'mutants.json'), 'w'))
                print(k, flush=True)
    json.dump(ms, open(os.path.join(WORK, 'mutants.json'), 'w'))
    print('survive suite:', sum(1 for m in ms if m.get('suite_ok')))


def run_checks(m):
    d = make_copy(m)
    res = {}
    try:
        env = dict(os.environ, TAPESCRIPT_REPO=d)
        for p in PROPS:
            r = subprocess.run([os.path.join(ROOT, 'check'), p, 'quick'],
                               env=env, capture_output=True, text=True,
                               timeout=1800)
            res[p] = r.returncode
            if r.returncode == 1:
                break               # caught: enough
    finally:
        shutil.rmtree(d, ignore_errors=True)
    return res


def do_run(n, seed, jobs):
    ms = json.load(open(os.path.join(WORK, 'mutants.json')))
    pool = [m for m in ms if m.get('suite_ok') and 'checks' not in m]
    random.Random(seed).shuffle(pool)
    pool = pool[:n]

    def one(m):
        m['checks'] = run_checks(m)
        return m
    with ThreadPoolExecutor(jobs) as ex:
        for k, m in enumerate(ex.map(one, pool)):
            caught = [p for p, rc in m['checks'].items() if rc == 1]
            print(k, m['file'], m['line'] + 1, m['rule'],
                  'CAUGHT ' + caught[0] if caught else 'SURVIVED', flush=True)
            json.dump(ms, open(os.path.join(WORK, 'mutants.json'), 'w'))
    subprocess.run(['git', '-C', ROOT, 'checkout', '--', 'evidence'],
                   capture_output=True)


def report():
    ms = json.load(open(os.path.join(WORK, 'mutants.json')))
    done = [m for m in ms if 'checks' in m]
    surv = [m for m in done if 1 not in m['checks'].values()]
    print('mutants', len(ms), 'pass suite',
          sum(1 for m in ms if m.get('suite_ok')), 'checked', len(done),
          'survived checks', len(surv))
    for m in surv:
        print(f"{m['file']}:{m['line'] + 1} [{m['rule']}]\n   - {m['old'].strip()}\n   + {m['new'].strip()}")


if __name__ == '__main__':
    a = sys.argv[1:]
    jobs = int(a[a.index('--jobs') + 1]) if '--jobs' in a else 4
    if a[0] == 'list':
        list_mutants()
    elif a[0] == 'filter':
        do_filter(jobs)
    elif a[0] == 'run':
        seed = int(a[a.index('--seed') + 1]) if '--seed' in a else 0
        do_run(int(a[1]), seed, jobs)
    else:
        report()
