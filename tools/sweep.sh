#!/bin/sh
# tools/sweep.sh <tier> [seed...]   — run every check, print one line each
cd "$(dirname "$0")/.." || exit 2
tier=${1:-quick}; shift
seeds=${*:-0}
for s in $seeds; do
  for p in C01 C02 C03 C04 C05 C06 C07 C08 C09 C10 C11 C12 C13 C14 C15 C16 C17 C18 C19 C20; do
    start=$(date +%s)
    out=$(VERIF_SEED=$s ./check $p $tier 2>&1); rc=$?
    end=$(date +%s)
    echo "seed=$s $p rc=$rc $((end-start))s :: $(echo "$out" | grep -v '^KNOWN-FINDING' | tail -1 | cut -c1-220)"
    if [ $rc -ne 0 ]; then echo "$out" | grep -E '^(VIOLATION|INCONCLUSIVE)' | head -5 | cut -c1-300; fi
  done
done
