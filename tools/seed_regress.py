#!/venv/bin/python
"""Re-run every stored seeded change against the CURRENT checks (quick tier).

  tools/seed_regress.py [--lanes 5] [--only Cnn ...]

For each /verif/seeded/<id>/ (meta.json names the property): export /repo HEAD
to a scratch copy under /var/tmp, apply patch.diff, run `./check <property>
quick` with TAPESCRIPT_REPO pointing at the copy, remove the copy. Seeds of
one property run one after the other (a check writes its evidence file), the
properties run in parallel lanes. Prints one line per seed and a summary;
exit 1 if a seed whose patch applies is not reported (rc != 1).
"""
import json
import os
import shutil
import subprocess
import sys
import tempfile
from concurrent.futures import ThreadPoolExecutor

ROOT = os.path.dirname(os.path.dirname(os.path.abspath(__file__)))


def one(sid, prop):
    d = tempfile.mkdtemp(prefix='regress-', dir='/var/tmp')
    try:
        subprocess.run(f'git -C /repo archive HEAD | tar -x -C {d}',
                       shell=True, check=True)
        r = subprocess.run(['patch', '-p1', '-s', '-i', os.path.join(
            ROOT, 'seeded', sid, 'patch.diff')], cwd=d, capture_output=True,
            text=True)
        if r.returncode != 0:
            return sid, prop, 'patch-does-not-apply', ''
        # the check that owns the property; if the stored evaluation says
        # another check is the one that reports this seed, that one
        m = json.load(open(os.path.join(ROOT, 'seeded', sid, 'meta.json')))
        by = [k for k, v in m.get('checks', {}).items() if v.get('rc') == 1]
        use = prop if (not by or prop in by) else by[0]
        r = subprocess.run([os.path.join(ROOT, 'check'), use, 'quick'],
                           env=dict(os.environ, TAPESCRIPT_REPO=d),
                           capture_output=True, text=True, timeout=3600)
        keys = sorted({ln.split('key=')[1].split(' ')[0]
                       for ln in r.stdout.splitlines()
                       if ln.startswith('VIOLATION') and 'key=' in ln})
        return sid, use, r.returncode, ','.join(keys)[:120]
    finally:
        shutil.rmtree(d, ignore_errors=True)


def lane(items):
    out = []
    for sid, prop in items:
        res = one(sid, prop)
        print(*res, flush=True)
        out.append(res)
    return out


def main(argv):
    lanes = int(argv[argv.index('--lanes') + 1]) if '--lanes' in argv else 5
    only = argv[argv.index('--only') + 1:] if '--only' in argv else None
    by_prop = {}
    for sid in sorted(os.listdir(os.path.join(ROOT, 'seeded'))):
        mp = os.path.join(ROOT, 'seeded', sid, 'meta.json')
        if not os.path.exists(mp):
            continue
        m = json.load(open(mp))
        prop = m.get('property') or sorted(m.get('checks', {'?': 0}))[0]
        if only and prop not in only:
            continue
        by_prop.setdefault(prop, []).append((sid, prop))
    with ThreadPoolExecutor(lanes) as ex:
        res = [x for r in ex.map(lane, by_prop.values()) for x in r]
    subprocess.run(['git', '-C', ROOT, 'checkout', '--', 'evidence'],
                   capture_output=True)
    missed = [r for r in res if r[2] not in (1, 'patch-does-not-apply')]
    stale = [r for r in res if r[2] == 'patch-does-not-apply']
    print(f'{len(res)} seeds: {len(res) - len(missed) - len(stale)} reported, '
          f'{len(missed)} NOT reported, {len(stale)} patches no longer apply')
    for r in missed + stale:
        print('  ', *r)
    return 1 if missed else 0


if __name__ == '__main__':
    sys.exit(main(sys.argv[1:]))
