#!/bin/sh
# tools/run_some.sh <tier> <seed> C06 C11 ...
cd "$(dirname "$0")/.." || exit 2
tier=$1; seed=$2; shift 2
for p in "$@"; do
  start=$(date +%s); out=$(VERIF_SEED=$seed ./check $p $tier 2>&1); rc=$?; end=$(date +%s)
  echo "seed=$seed $p rc=$rc $((end-start))s :: $(echo "$out" | grep -v '^KNOWN-FINDING' | tail -1 | cut -c1-220)"
  if [ $rc -ne 0 ]; then echo "$out" | grep -E '^(VIOLATION|INCONCLUSIVE)' | head -6 | cut -c1-300; fi
done
