#!/venv/bin/python
"""Regenerate MANIFEST.json from the table below (keeps it schema-valid)."""
import json
import os
import sys

ROOT = os.path.dirname(os.path.dirname(os.path.abspath(__file__)))

# id -> (technique, level text, level note, design ref)
CHECKS = {
    'C01': ('differential monitor: real run_auth_scripts vs a channel oracle '
            'composed from per-script run_tape calls + dispatch-trace checker',
            'Held on the generated script lists: verdict and per-script '
            'dispatch trace of the real call are compared with an oracle that '
            'clears interpreter control state at every script boundary.',
            'intra-script semantics are taken from the real VM (that is C06); '
            'generated caches never contain the control key',
            '5/C01'),
    'C02': ('reference-model monitor (sigfield message model + Ed25519) over '
            'exhaustive flag/allowed matrices and bit-flip metamorphic battery',
            'Exhaustive GET_MESSAGE flag x presence space, CHECK_SIG over the '
            'flag x allowed matrix, sign-then-check, single-bit corruptions.',
            'libsodium (called directly) cross-checked against a pure-Python '
            'RFC 8032 implementation on a sample',
            '5/C02'),
    'C03': ('reference-model monitor: brute-force injective matching of '
            'signatures to key positions vs OP_CHECK_MULTISIG, permutation '
            'invariance',
            'Held on generated multisets for n<=5 with all orders for n<=4.',
            'per-signature validity from the C02 model', '5/C03'),
    'C04': ('beacon contract + dispatch-trace monitor + independent merkle '
            'commitment model over all tree shapes and proof corruptions',
            'All binary tree shapes up to the tier bound, builder outputs, '
            'every leaf, six corruption families per proof.',
            'sha256 from hashlib; leaf verdict from the real VM run alone',
            '5/C04'),
    'C05': ('reference-model monitor: pure-Python Ed25519 root identity, '
            'key-path / script-path oracles, dispatch monitor on the supplied '
            'script, native vs non-native differential',
            'Held on generated (seed, script, sigfields, flags) tuples and '
            'their corruptions.',
            'pure-Python Ed25519 reference; C02 model for the key path',
            '5/C05'),
    'C06': ('differential monitor: real run_script vs an independent '
            'reference interpreter written from docs.md / language_spec.md',
            'Held on generated well-typed, mutated and raw programs with '
            'coverage floors per opcode; UNSPECIFIED cases are skipped and '
            'counted.',
            'the reference VM transcribes the documents (Appendix A)',
            '5/C06'),
    'C07': ('invariant-at-hook monitors on injected Stack/deque/Tape, frame '
            'tracker for CALL/EVAL depth and LOOP iterations, entropy-request '
            'log, tracemalloc peak',
            'Every stack mutation, tape read, call/eval activation and loop '
            'iteration of resource-hungry scripts is checked against the '
            'configured limits.',
            'memory bound constants A=1MiB, B=8, C=64 are generous by design',
            '5/C07'),
    'C08': ('recorded cache-write log (dict subclass) checked offline: no '
            'set/del on str keys, deep snapshot equality of embedder entries',
            'Held on cache-writing programs with protected names in every '
            'encoding, including failed runs.',
            'no plugins/contracts other than a pure recording contract',
            '5/C08'),
    'C09': ('probe-in-context monitor: side effects of a probe instruction in '
            'every nesting word vs top level; flag invariant at the dispatch '
            'hook; plugin/contract invocation recorders',
            'All nesting words up to the tier depth x probes for every flag, '
            'threshold, plugin scope and contract.',
            'contexts generated as bytecode; probes clean up after themselves',
            '5/C09'),
    'C10': ('runtime contracts (post-conditions on every call) on the real '
            'codec functions + big-int / hand-decoded float32 reference for '
            'instruction results',
            'Exhaustive small ranges, 2^k+d sweep, random big ints, all 1-/2-'
            'byte strings, float32 patterns per exponent; arithmetic '
            'instructions run with contracts on.',
            'Python int arithmetic and a hand-written IEEE-754 decoder are '
            'the reference', '5/C10'),
    'C11': ('differential monitor: compile_script vs an independent reference '
            'assembler over abstract programs rendered under spelling vectors',
            'Held on generated abstract programs x renderings; rejection is '
            'admissible, acceptance floor guards vacuity.',
            'reference ISA transcribed from docs.md', '5/C11'),
    'C12': ('bounded-progress monitor (injected Tape: every read observed, '
            'logical step budget) + round-trip and listing oracles',
            'Exhaustive short strings, crafted size fields, random/mutated '
            'strings; round trip of compiler and builder output.',
            'termination restated as a read budget linear in the input',
            '5/C12'),
    'C13': ('intent-model monitor over builder pairs: positive pairing and '
            'single-dimension negative perturbations, cross-builder pairing',
            'Held on generated scenarios for every builder pair.',
            'cryptographic never-claims judged on sampled corruptions',
            '5/C13'),
    'C14': ('predicate oracle from the statement over chains with boundary '
            'timestamps and certificate corruptions, pinned clock',
            'Chains of length 1..6 with every window edge per link, '
            'may-delegate patterns, corruptions and splices.',
            'pinned verifier clock', '5/C14'),
    'C15': ('predicate oracle over HTLC/PTLC locks x witnesses with pinned '
            'clock at deadline boundaries',
            'Six lock kinds x four witness kinds, boundary times, wrong '
            'keys/preimages.', 'pinned verifier clock', '5/C15'),
    'C16': ('exhaustive boundary grid + random 63-bit quadruples against the '
            'window formulas, pinned clock',
            'Every boundary +-2 crossed with thresholds and encodings, plus '
            'the three lock builders.', 'pinned verifier clock', '5/C16'),
    'C17': ('reference-model monitor: pure-Python Ed25519 relations on '
            'adapter outputs, single-bit corruption battery, builders e2e',
            'Held on generated (seed, message, tweak) tuples incl. edge '
            'scalars.', 'pure-Python Ed25519 reference', '5/C17'),
    'C18': ('history checker: release cascade replayed hop by hop against '
            'pure-Python scalar/point sums; wrong-order histories must fail',
            'Chains n=2..8, all release orders for small n.',
            'pure-Python Ed25519 reference', '5/C18'),
    'C19': ('sequential set-model checker over recorded API histories, '
            'history-independence vs a fresh process with equal registry '
            'contents',
            'Bounded-exhaustive short histories per registry family plus '
            'random long cross-family histories; each violation re-validated '
            'in a fresh process.',
            'registries are process-global: one process per history batch',
            '5/C19'),
    'C20': ('exhaustive code x count x depth grid on the real VM + two-process '
            'differential (forked vs plain VM) for the soft-fork implication',
            'All unassigned codes x count bytes x depths; fork-op family at '
            'free codes.', 'fork ops conform to the NOP contract', '5/C20'),
}


def built(pid: str) -> bool:
    return os.path.exists(os.path.join(ROOT, 'tsverif', 'props',
                                       pid.lower() + '.py'))


def main():
    checks, na = [], []
    for pid in sorted(CHECKS):
        tech, text, note, ref = CHECKS[pid]
        if not built(pid):
            na.append({'property_id': pid, 'reason':
                       'check not built yet in this round (designed in '
                       f'DESIGN.md section {ref}); nothing is claimed'})
            continue
        checks.append({
            'property_id': pid,
            'quick_cmd': f'./check {pid} quick',
            'thorough_cmd': f'./check {pid} thorough',
            'evidence_file': f'evidence/{pid}.json',
            'replay_cmd_template': f'./check {pid} --replay {{path}}',
            'engine': 'tsverif',
            'level_claimed': {'category': 'exploration', 'text': text,
                              'design_ref': f'DESIGN.md section {ref}'},
            'level_note': note,
            'technique': 'runtime monitoring: ' + tech,
        })
    m = {
        'version': 1,
        'setup_cmd': '/venv/bin/python -B -c "import sys; '
                     "sys.path.insert(0,'.'); import tsverif.main, "
                     'tsverif.worker, tsverif.instr"',
        'hooks': {
            'guard': 'TAPESCRIPT_VERIF',
            'enable': 'no source hooks: all instrumentation is injected by '
                      'the harness at import time (tsverif/instr.py); the '
                      'guard variable is set by the harness and read by '
                      'nothing in /repo',
            'baseline_off_cmd': 'cd /repo && env -u TAPESCRIPT_VERIF '
                                '/venv/bin/python -m pytest -q -p '
                                'no:cacheprovider --timeout=900',
            'source_commits': [],
            'add_only': True,
        },
        'engines': [{
            'name': 'tsverif', 'path': 'tsverif',
            'serves_properties': [c['property_id'] for c in checks],
            'kind_free_text': 'runtime-monitoring harness: sharded workload '
            'driver, injected monitors, reference models, 3-valued verdicts',
        }],
        'checks': checks,
        'not_applicable': na,
        'notes': 'Exit 0 held / 1 VIOLATION / 2 INCONCLUSIVE (never on the '
                 'unchanged tree). KNOWN_FINDINGS.txt lists open findings by '
                 'mechanism key. All checks honour VERIF_SEED and '
                 'TAPESCRIPT_REPO (default /repo).',
    }
    with open(os.path.join(ROOT, 'MANIFEST.json'), 'w') as f:
        json.dump(m, f, indent=1)
        f.write('\n')
    print('claimed', [c['property_id'] for c in checks])


if __name__ == '__main__':
    main()
