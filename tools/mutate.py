#!/venv/bin/python
"""Apply one textual mutation to a scratch copy of /repo and run checks on it.

  tools/mutate.py [-t] FILE OLD NEW -- C16 [C02 ...]      (quick tier)
  tools/mutate.py [-t] --patch P.diff -- C16

-t also runs the repository's own test suite in the copy (must still pass).
The copy lives under /var/tmp and is removed afterwards; /repo is untouched.
"""
import os
import shutil
import subprocess
import sys
import tempfile

ROOT = os.path.dirname(os.path.dirname(os.path.abspath(__file__)))


def main(argv):
    run_tests = False
    tier = 'quick'
    if argv and argv[0] == '-t':
        run_tests = True
        argv = argv[1:]
    if argv and argv[0] == '--thorough':
        tier = 'thorough'
        argv = argv[1:]
    sep = argv.index('--')
    spec, props = argv[:sep], argv[sep + 1:]
    tmp = tempfile.mkdtemp(prefix='tsmut-', dir='/var/tmp')
    try:
        subprocess.run(f'git -C /repo archive HEAD | tar -x -C {tmp}',
                       shell=True, check=True)
        if spec[0] == '--patch':
            subprocess.run(['git', 'apply', '--unsafe-paths', '--directory',
                            tmp, os.path.abspath(spec[1])], check=True,
                           cwd=tmp) if False else subprocess.run(
                ['patch', '-p1', '-s', '-i', os.path.abspath(spec[1])],
                check=True, cwd=tmp)
        else:
            f, old, new = spec
            p = os.path.join(tmp, f)
            s = open(p).read()
            n = s.count(old)
            if n != 1:
                print(f'MUTATE: pattern occurs {n} times in {f}')
                return 2
            open(p, 'w').write(s.replace(old, new))
        if run_tests:
            r = subprocess.run(
                ['/venv/bin/python', '-m', 'pytest', '-q', '-x', '-p',
                 'no:cacheprovider', '--timeout=900', '-q'], cwd=tmp,
                capture_output=True, text=True)
            tail = r.stdout.strip().splitlines()[-1:] if r.stdout else []
            print('TESTS:', tail)
        env = dict(os.environ, TAPESCRIPT_REPO=tmp)
        rcs = {}
        for pid in props:
            r = subprocess.run([os.path.join(ROOT, 'check'), pid, tier],
                               env=env, capture_output=True, text=True)
            lines = [l for l in r.stdout.splitlines()
                     if l.startswith(('VIOLATION', 'FAILED', 'HELD',
                                      'INCONCLUSIVE'))]
            rcs[pid] = r.returncode
            print(f'{pid}: rc={r.returncode}')
            for l in lines[:3] + lines[-1:]:
                print('   ', l[:300])
            if r.returncode not in (0, 1, 2):
                print(r.stdout[-800:], r.stderr[-800:])
        return 0 if all(v == 1 for v in rcs.values()) else 1
    finally:
        shutil.rmtree(tmp, ignore_errors=True)
        # a mutant run rewrites evidence/replay: restore committed evidence
        subprocess.run(['git', '-C', ROOT, 'checkout', '--', 'evidence'],
                       capture_output=True)


if __name__ == '__main__':
    sys.exit(main(sys.argv[1:]))
