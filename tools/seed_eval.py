#!/venv/bin/python
"""Confirm a seeded change and run checks against it.

  tools/seed_eval.py <seed-id> <dir with patch.diff demo.py notes.md> <Cnn> [more checks..] [--tier quick|thorough] [--save]

Steps (all on scratch copies of /repo HEAD under /var/tmp, removed afterwards):
  1. patch applies to a clean export of /repo HEAD
  2. repository test suite on the patched copy (expects the 267 stable passes)
  3. demo.py exits 0 on the clean copy and non-zero on the patched copy
  4. each listed check (quick tier by default) with TAPESCRIPT_REPO=<patched>
With --save the files + meta.json are stored under /verif/seeded/<seed-id>/.
"""
import json
import os
import shutil
import subprocess
import sys
import tempfile

ROOT = os.path.dirname(os.path.dirname(os.path.abspath(__file__)))


def sh(cmd, **kw):
    return subprocess.run(cmd, shell=isinstance(cmd, str), capture_output=True,
                          text=True, **kw)


def main(argv):
    save = '--save' in argv
    argv = [a for a in argv if a != '--save']
    tier = 'quick'
    if '--tier' in argv:
        i = argv.index('--tier')
        tier = argv[i + 1]
        del argv[i:i + 2]
    sid, src = argv[0], os.path.abspath(argv[1])
    checks = argv[2:]
    patch = os.path.join(src, 'patch.diff')
    clean = tempfile.mkdtemp(prefix='seed-clean-', dir='/var/tmp')
    pat = tempfile.mkdtemp(prefix='seed-pat-', dir='/var/tmp')
    meta = {'seed_id': sid, 'checks': {}, 'tier': tier}
    try:
        for d in (clean, pat):
            sh(f'git -C /repo archive HEAD | tar -x -C {d}')
        r = sh(['patch', '-p1', '-s', '-i', patch], cwd=pat)
        meta['patch_applies'] = r.returncode == 0
        if r.returncode != 0:
            print('PATCH DOES NOT APPLY', r.stdout, r.stderr)
            return 2
        meta['repo_head'] = sh('git -C /repo rev-parse --short HEAD').stdout.strip()
        r = sh(['/venv/bin/python', '-m', 'pytest', '-q', '-p',
                'no:cacheprovider', '--timeout=900'], cwd=pat)
        tail = r.stdout.strip().splitlines()[-1] if r.stdout.strip() else ''
        meta['suite_with_change'] = tail
        print('suite with change :', tail)
        for label, d in (('clean', clean), ('patched', pat)):
            os.makedirs(os.path.join(d, '_seed'), exist_ok=True)
            shutil.copy(os.path.join(src, 'demo.py'),
                        os.path.join(d, '_seed', 'demo.py'))
            r = sh(['/venv/bin/python', '_seed/demo.py'], cwd=d, timeout=600)
            meta[f'demo_rc_{label}'] = r.returncode
            print(f'demo on {label:7s} : rc={r.returncode} '
                  f'{(r.stdout.strip().splitlines() or [""])[-1][:150]}')
        env = dict(os.environ, TAPESCRIPT_REPO=pat)
        for c in checks:
            r = subprocess.run([os.path.join(ROOT, 'check'), c, tier], env=env,
                               capture_output=True, text=True)
            lines = [l for l in r.stdout.splitlines()
                     if l.startswith(('VIOLATION', 'FAILED', 'HELD',
                                      'INCONCLUSIVE'))]
            keys = sorted({l.split('key=')[1].split(' ')[0]
                           for l in lines if 'key=' in l})
            meta['checks'][c] = {'rc': r.returncode, 'keys': keys}
            print(f'check {c} {tier}: rc={r.returncode} keys={keys}')
            for l in lines[:2]:
                print('     ', l[:260])
        ok = (meta['demo_rc_clean'] == 0 and meta['demo_rc_patched'] != 0
              and '267 passed' in meta['suite_with_change'])
        meta['confirmed'] = ok
        print('CONFIRMED' if ok else 'NOT CONFIRMED')
        if save:
            dst = os.path.join(ROOT, 'seeded', sid)
            os.makedirs(dst, exist_ok=True)
            for f in ('patch.diff', 'demo.py', 'notes.md'):
                if os.path.exists(os.path.join(src, f)):
                    shutil.copy(os.path.join(src, f), os.path.join(dst, f))
            mp = os.path.join(dst, 'meta.json')
            old = {}
            if os.path.exists(mp):
                old = json.load(open(mp))
            old.update({k: v for k, v in meta.items() if k != 'checks'})
            old.setdefault('checks', {}).update(meta['checks'])
            json.dump(old, open(mp, 'w'), indent=1)
        return 0
    finally:
        shutil.rmtree(clean, ignore_errors=True)
        shutil.rmtree(pat, ignore_errors=True)
        subprocess.run(['git', '-C', ROOT, 'checkout', '--', 'evidence'],
                       capture_output=True)


if __name__ == '__main__':
    sys.exit(main(sys.argv[1:]))
