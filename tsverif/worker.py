"""One shard of one check, in its own process:
    python -B -m tsverif.worker <ID> <tier> <seed> <spec.json> <out.json>
"""
from __future__ import annotations
import importlib
import signal
import sys
import traceback

from . import jsonx
from .ctx import Ctx


class CaseTimeout(BaseException):
    """Wall-clock watchdog for one case. Only ever yields *inconclusive*."""


def _alarm(signum, frame):
    raise CaseTimeout()


class case_timeout:
    """`with case_timeout(sec):` — raises CaseTimeout in the body. The timer
    re-fires every 50 ms so that code which swallows BaseException (the VM's
    TRY/EXCEPT does) cannot absorb it."""

    def __init__(self, sec: float) -> None:
        self.sec = sec

    def __enter__(self):
        signal.signal(signal.SIGALRM, _alarm)
        signal.setitimer(signal.ITIMER_REAL, self.sec, 0.05)
        return self

    def __exit__(self, *a):
        signal.setitimer(signal.ITIMER_REAL, 0, 0)
        return False


def main(argv) -> int:
    prop, tier, seed, spec_path, out_path = argv
    seed = int(seed)
    spec = jsonx.load_file(spec_path)
    mod = importlib.import_module(f'tsverif.props.{prop.lower()}')
    shard = spec.get('shard', 0) if isinstance(spec, dict) else 0
    ctx = Ctx(prop, tier, seed, shard)
    out = {}
    try:
        if getattr(mod, 'NEEDS_BOOTSTRAP', True):
            from . import env
            env.bootstrap()
        sys.setrecursionlimit(getattr(mod, 'RECURSION_LIMIT', 1000))
        watch_defaults = getattr(mod, 'BUILDER_DEFAULTS', False)
        if watch_defaults:
            from . import env, omit
            env.BUILDER_PROXY = True
        if isinstance(spec, dict) and '$replay' in spec:
            case = spec['$replay']['case']
            if watch_defaults and isinstance(case, dict) \
                    and 'builder_default' in case:
                omit.replay(case, ctx)
            else:
                mod.replay(case, ctx)
        else:
            mod.run_shard(spec, ctx)
        if watch_defaults:
            omit.drain(ctx)
    except BaseException as e:  # harness failure: never a verdict
        handled = False
        try:
            if getattr(mod, 'BUILDER_DEFAULTS', False):
                from . import omit
                handled = omit.escaped_builder_error(e, ctx)
                omit.drain(ctx)
        except BaseException:
            handled = False
        if not handled:
            out['harness_error'] = ''.join(
                traceback.format_exception(type(e), e, e.__traceback__))[-4000:]
    out.update(ctx.to_dict())
    jsonx.dump_file(out, out_path)
    return 3 if 'harness_error' in out else 0


if __name__ == '__main__':
    sys.exit(main(sys.argv[1:]))
