"""Reference interpreter for tapescript byte code, written from docs.md (op
reference) read with language_spec.md; operand orders the two leave open are
the ones pinned by the unit tests (DESIGN.md Appendix A). Imports nothing from
tapescript.

Design rules:
 1. errors are class-agnostic: VMError;
 2. the model is partial: where the documents do not determine the outcome it
    raises Unspecified and the case is skipped (and counted), never judged;
 3. it is never bent to match undocumented behaviour.

libsodium (nacl.bindings, called directly) is used as a trusted primitive for
group / scalar arithmetic and signatures; hashing is hashlib.
"""
from __future__ import annotations
import hashlib
import math
import struct

import nacl.bindings as nb

from . import ed25519 as E
from . import isa, sigmsg

L = E.L
MASK255 = (1 << 255) - 1


class VMError(Exception):
    """script-level error (class agnostic)"""


class Unspecified(Exception):
    """the documents do not determine the outcome"""


class _Return(Exception):
    pass


class Opaque(bytes):
    """a value whose *contents* the model does not predict (only its shape)"""
    tag = 'opaque'

    def __new__(cls, n, tag='opaque'):
        o = super().__new__(cls, bytes(n))
        o.tag = tag
        return o


class IntItem(bytes):
    """an integer result (compared by value if the encodings differ)"""


def is_opaque(x) -> bool:
    return isinstance(x, Opaque)


def truthy(b: bytes) -> bool:
    return any(b)


def int_dec(b: bytes) -> int:
    if is_opaque(b):
        raise Unspecified('int value of an opaque item')
    if len(b) == 0:
        raise VMError('empty int')
    return int.from_bytes(b, 'big', signed=True)


def int_item(n: int) -> IntItem:
    it = IntItem(isa.int_enc(n))
    # above 2^48 the VM's integer encoder may add a sign-extension byte (the
    # encoding stays correct, see C10): the *bytes* of such a result are not
    # predicted, only its value
    it.fuzzy = abs(n) >= 1 << 48
    return it


def f32_dec(b: bytes) -> float:
    if is_opaque(b):
        raise Unspecified('float value of an opaque item')
    if len(b) != 4:
        raise VMError('malformed float')
    return struct.unpack('>f', b)[0]


def f32_enc(x: float) -> bytes:
    if x != x:
        raise VMError('nan')
    if x in (math.inf, -math.inf):
        return struct.pack('>f', x)
    try:
        return struct.pack('>f', x)
    except OverflowError:
        raise Unspecified('float result beyond float32 range')


def clear255(b: bytes) -> bytes:
    a = bytearray(b[:32])
    a[31] &= 0x7f
    return bytes(a)


def point_ok(p: bytes) -> bool:
    """-> True valid / False invalid; Unspecified for torsion-mixed points"""
    if is_opaque(p):
        raise Unspecified('opaque point')
    if len(p) != 32:
        raise Unspecified('point operand that is not 32 bytes')
    c = E.point_class(p)
    if c == 'mixed':
        raise Unspecified('point with a torsion component')
    return c == 'main'


def base_mul(scalar32: bytes) -> bytes:
    try:
        return nb.crypto_scalarmult_ed25519_base_noclamp(scalar32)
    except Exception:
        raise VMError('scalar multiplication failed')


class Config:
    def __init__(self, max_items=1024, max_item_size=1024, limit=128,
                 flags=None, contracts=None, now=0, entropy=None,
                 plugins=None):
        self.plugins = plugins or {}
        self.max_items = max_items
        self.max_item_size = max_item_size
        self.limit = limit
        self.flags = dict(flags or {})
        self.contracts = contracts or {}
        self.now = now
        self.entropy = entropy          # callable(n) -> bytes


class _TwoItems:
    """what a check_template plugin sees: the template on top, the sigfield
    beneath (read-only view with the Stack's peek signature)"""

    def __init__(self, field, template):
        self.items = [field, template]

    def peek(self, index=0):
        return self.items[len(self.items) - index - 1]

    def __len__(self):
        return 2


DEFAULT_FLAGS = {'ts_threshold': 60, 'epoch_threshold': 60,
                 **{i: True for i in range(11)}}

UNSPEC_DEF = object()

# instructions that take several operands and validate them: which operands
# are already consumed when they fail is not documented, so a TRY that catches
# their failure continues from an unspecified stack
AMBIGUOUS_FAIL_STATE = {
    'OP_DECRYPT_ADAPTER_SIG', 'OP_MAKE_ADAPTER_SIG_PRIVATE',
    'OP_MAKE_ADAPTER_SIG_PUBLIC', 'OP_CHECK_ADAPTER_SIG', 'OP_CHECK_TRANSFER',
    'OP_INVOKE', 'OP_CHECK_MULTISIG', 'OP_CHECK_MULTISIG_VERIFY',
    'OP_ADD_POINTS', 'OP_SUBTRACT_POINTS', 'OP_ADD_SCALARS',
    'OP_SUBTRACT_SCALARS', 'OP_TAPROOT', 'OP_SIGN_STACK',
    'OP_CHECK_SIG_STACK', 'OP_CHECK_TEMPLATE', 'OP_CHECK_TEMPLATE_VERIFY',
    'OP_DIV_FLOATS', 'OP_MOD_FLOATS', 'OP_ADD_FLOATS', 'OP_SUBTRACT_FLOATS',
    'OP_SPLIT', 'OP_SPLIT_STR', 'OP_CONCAT_STR',
}


class Frame:
    """one tape activation"""

    def __init__(self, code, defs, flags, depth, in_def=False):
        self.code = code
        self.p = 0
        self.defs = defs
        self.flags = flags
        self.depth = depth      # CALL/EVAL chain depth of this activation
        self.in_def = in_def


class VM:
    def __init__(self, cfg: Config, cache: dict):
        self.cfg = cfg
        self.stack: list = []
        self.cache = cache
        self.total_calls = 0
        self.steps = 0
        self.executed: dict = {}        # op name -> count (coverage)
        self.max_nesting = 0
        self.errors_below_top = 0

    # ---------------------------------------------------------- stack
    def pop(self) -> bytes:
        if not self.stack:
            raise VMError('pop from empty stack')
        return self.stack.pop()

    def push(self, b) -> None:
        if not isinstance(b, bytes):
            raise VMError('non-bytes item')
        if is_opaque(b) and b.tag == 'error-text' and \
                self.cfg.max_item_size < 512:
            raise Unspecified('error text pushed under a small item limit '
                              '(its length is not specified)')
        if len(b) > self.cfg.max_item_size:
            raise VMError('item too large')
        if len(self.stack) >= self.cfg.max_items:
            raise VMError('stack full')
        self.stack.append(b)

    def peek(self) -> bytes:
        if not self.stack:
            raise VMError('peek on empty stack')
        return self.stack[-1]

    # ---------------------------------------------------------- tape
    def read(self, f: Frame, n: int) -> bytes:
        if f.p + n > len(f.code):
            raise VMError('read past end of tape')
        v = f.code[f.p:f.p + n]
        f.p += n
        return v

    def u8(self, f):
        return self.read(f, 1)[0]

    def lv1(self, f):
        return self.read(f, self.u8(f))

    def blk(self, f):
        return self.read(f, int.from_bytes(self.read(f, 2), 'big'))

    # ---------------------------------------------------------- run
    def run_top(self, code: bytes):
        flags = {**DEFAULT_FLAGS, **self.cfg.flags}
        f = Frame(code, {}, flags, 0)
        try:
            self.run(f, 0)
        except _Return:
            pass

    def run(self, f: Frame, nesting: int):
        if nesting > self.max_nesting:
            self.max_nesting = nesting
        if nesting > 40:
            raise Unspecified('nesting beyond the modelled depth')
        while f.p < len(f.code):
            code = self.u8(f)
            self.steps += 1
            if self.steps > 20000:
                raise Unspecified('step budget of the model')
            if code >= isa.N_OPS:
                self.op_nop(f)
                name = 'NOP'
            else:
                name = isa.NAMES[code]
                try:
                    getattr(self, name)(f, nesting)
                except _Return:
                    self.executed[name] = self.executed.get(name, 0) + 1
                    raise
                except VMError as e:
                    if not hasattr(e, 'op'):
                        e.op = name
                    raise
            self.executed[name] = self.executed.get(name, 0) + 1

    def sub(self, f: Frame, body: bytes, nesting: int, defs=None, flags=None,
            depth=None, in_def=None):
        g = Frame(body, f.defs if defs is None else defs,
                  f.flags if flags is None else flags,
                  f.depth if depth is None else depth,
                  f.in_def if in_def is None else in_def)
        self.run(g, nesting + 1)

    def scoped_body(self, f: Frame, body: bytes, nesting: int):
        """IF / TRY / LOOP bodies: see the caller's definitions; what a DEF
        executed inside leaves behind afterwards is not documented."""
        child = dict(f.defs)
        try:
            self.sub(f, body, nesting, defs=child)
        finally:
            for h, v in child.items():
                if f.defs.get(h, None) is not v:
                    f.defs[h] = UNSPEC_DEF

    # ---------------------------------------------------------- ops
    def op_nop(self, f):
        count = int.from_bytes(self.read(f, 1), 'big', signed=True)
        if count < 0:
            raise VMError('negative NOP count')
        for _ in range(count):
            self.pop()

    def OP_FALSE(self, f, n):
        self.push(b'\x00')

    def OP_TRUE(self, f, n):
        self.push(b'\xff')

    def OP_PUSH0(self, f, n):
        self.push(self.read(f, 1))

    def OP_PUSH1(self, f, n):
        self.push(self.lv1(f))

    def OP_PUSH2(self, f, n):
        self.push(self.read(f, int.from_bytes(self.read(f, 2), 'big')))

    def sig_ext(self):
        """signature-extension plugins run exactly once before every
        signature-related instruction (embedder code: same callables as in the
        real run; they only touch the cache)"""
        for p in self.cfg.plugins.get('signature_extensions', ()):
            p(None, None, self.cache)

    def OP_GET_MESSAGE(self, f, n):
        self.sig_ext()
        flag = self.u8(f)
        self.push(self.message(flag))

    def message(self, flag):
        for i in range(1, 9):
            v = self.cache.get(f'sigfield{i}')
            if v is not None and not isinstance(v, bytes):
                raise Unspecified('non-bytes sigfield')
        return sigmsg.message(self.cache, flag)

    def OP_POP0(self, f, n):
        self.cache[b'P'] = [self.pop()]

    def OP_POP1(self, f, n):
        k = self.u8(f)
        self.cache[b'P'] = [self.pop() for _ in range(k)]

    def OP_SIZE(self, f, n):
        x = self.pop()
        if is_opaque(x) and x.tag == 'error-text':
            raise Unspecified('size of the error text')
        if isinstance(x, IntItem) and getattr(x, 'fuzzy', False):
            raise Unspecified('size of a large integer result')
        self.push(int_item(len(x)))

    def OP_WRITE_CACHE(self, f, n):
        key = self.lv1(f)
        k = self.u8(f)
        self.cache[key] = [self.pop() for _ in range(k)]

    def _cache_items(self, key):
        if key not in self.cache:
            raise VMError('key not in cache')
        v = self.cache[key]
        items = list(v) if isinstance(v, (list, tuple)) else [v]
        return items

    def OP_READ_CACHE(self, f, n):
        for it in self._cache_items(self.lv1(f)):
            self.push(it)

    def _cache_count(self, key):
        if key not in self.cache:
            return 0
        v = self.cache[key]
        return len(v) if isinstance(v, (list, tuple)) else 1

    def OP_READ_CACHE_SIZE(self, f, n):
        self.push(int_item(self._cache_count(self.lv1(f))))

    def OP_READ_CACHE_STACK(self, f, n):
        for it in self._cache_items(self._content(self.pop())):
            self.push(it)

    def OP_READ_CACHE_STACK_SIZE(self, f, n):
        self.push(int_item(self._cache_count(self._content(self.pop()))))

    def OP_ADD_INTS(self, f, n):
        k = self.u8(f)
        t = 0
        for _ in range(k):
            t += int_dec(self.pop())
        self.push(int_item(t))

    def OP_SUBTRACT_INTS(self, f, n):
        k = self.u8(f)
        if k == 0:
            raise Unspecified('SUBTRACT_INTS 0')
        t = int_dec(self.pop())
        for _ in range(k - 1):
            t -= int_dec(self.pop())
        self.push(int_item(t))

    def OP_MULT_INTS(self, f, n):
        k = self.u8(f)
        if k == 0:
            raise Unspecified('MULT_INTS 0')
        t = int_dec(self.pop())
        for _ in range(k - 1):
            t *= int_dec(self.pop())
        self.push(int_item(t))

    def _divmod(self, dividend, divisor):
        if divisor == 0:
            raise VMError('division by zero')
        if dividend % divisor != 0 and (dividend < 0) != (divisor < 0):
            raise Unspecified('inexact division with operands of different '
                              'sign (floor vs truncation undocumented)')
        return dividend // divisor, dividend % divisor

    def OP_DIV_INT(self, f, n):
        d = self.lv1(f)
        divisor = int_dec(d)
        dividend = int_dec(self.pop())
        self.push(int_item(self._divmod(dividend, divisor)[0]))

    def OP_DIV_INTS(self, f, n):
        dividend = int_dec(self.pop())
        divisor = int_dec(self.pop())
        self.push(int_item(self._divmod(dividend, divisor)[0]))

    def OP_MOD_INT(self, f, n):
        d = self.lv1(f)
        divisor = int_dec(d)
        dividend = int_dec(self.pop())
        self.push(int_item(self._divmod(dividend, divisor)[1]))

    def OP_MOD_INTS(self, f, n):
        dividend = int_dec(self.pop())
        divisor = int_dec(self.pop())
        self.push(int_item(self._divmod(dividend, divisor)[1]))

    def OP_ADD_FLOATS(self, f, n):
        k = self.u8(f)
        t = 0.0
        for _ in range(k):
            t += f32_dec(self.pop())
        self.push(f32_enc(t))

    def OP_SUBTRACT_FLOATS(self, f, n):
        k = self.u8(f)
        if k == 0:
            raise Unspecified('SUBTRACT_FLOATS 0')
        t = f32_dec(self.pop())
        for _ in range(k - 1):
            t -= f32_dec(self.pop())
        self.push(f32_enc(t))

    def _fdiv(self, a, b):
        if b == 0:
            raise VMError('float division by zero')
        return a / b

    def _fmod(self, a, b):
        if b == 0:
            raise VMError('float modulus by zero')
        if a != a or b != b or a in (math.inf, -math.inf):
            raise VMError('nan')
        if (a < 0) != (b < 0) and a % b != 0:
            raise Unspecified('float modulus with operands of different sign')
        if b in (math.inf, -math.inf):
            raise Unspecified('float modulus by infinity')
        return a % b

    def OP_DIV_FLOAT(self, f, n):
        divisor = f32_dec(self.read(f, 4))
        dividend = f32_dec(self.pop())
        self.push(f32_enc(self._fdiv(dividend, divisor)))

    def OP_DIV_FLOATS(self, f, n):
        # top / second: pinned by the unit tests (docs.md says the opposite)
        a = f32_dec(self.pop())
        b = f32_dec(self.pop())
        self.push(f32_enc(self._fdiv(a, b)))

    def OP_MOD_FLOAT(self, f, n):
        divisor = f32_dec(self.read(f, 4))
        dividend = f32_dec(self.pop())
        self.push(f32_enc(self._fmod(dividend, divisor)))

    def OP_MOD_FLOATS(self, f, n):
        divisor = f32_dec(self.pop())
        dividend = f32_dec(self.pop())
        self.push(f32_enc(self._fmod(dividend, divisor)))

    def OP_ADD_POINTS(self, f, n):
        k = self.u8(f)
        pts = [self.pop() for _ in range(k)]
        if k == 0:
            raise Unspecified('ADD_POINTS 0')
        for p in pts:
            if not point_ok(p):
                raise VMError('invalid point')
        acc = pts[0]
        for p in pts[1:]:
            acc = nb.crypto_core_ed25519_add(acc, p)
        self.push(acc)

    def OP_COPY(self, f, n):
        k = self.u8(f)
        it = self.pop()
        for _ in range(k + 1):
            self.push(it)

    def OP_DUP(self, f, n):
        it = self.pop()
        self.push(it)
        self.push(it)

    def _content(self, x):
        if is_opaque(x):
            raise Unspecified('content of an opaque item used')
        if isinstance(x, IntItem) and getattr(x, 'fuzzy', False):
            raise Unspecified('bytes of a large integer result used (its '
                              'encoding may carry a sign-extension byte)')
        return x

    def OP_SHA256(self, f, n):
        self.push(hashlib.sha256(self._content(self.pop())).digest())

    def OP_SHAKE256(self, f, n):
        k = self.u8(f)
        self.push(hashlib.shake_256(self._content(self.pop())).digest(k))

    def OP_VERIFY(self, f, n):
        if not truthy(self._content(self.pop())):
            raise VMError('OP_VERIFY check failed')

    def OP_EQUAL(self, f, n):
        a, b = self._content(self.pop()), self._content(self.pop())
        self.push(b'\xff' if a == b else b'\x00')

    def OP_EQUAL_VERIFY(self, f, n):
        self.OP_EQUAL(f, n)
        self.OP_VERIFY(f, n)

    def _check_sig(self, key, sig, allowed):
        self._content(key)
        self._content(sig)
        if len(key) != 32 or len(sig) not in (64, 65):
            raise VMError('malformed key / signature')
        flag = sig[64] if len(sig) == 65 else 0
        if flag & ~allowed & 0xff:
            raise VMError('disallowed sigflag')
        msg = self.message(flag)
        if len(msg) > self.cfg.max_item_size:
            raise Unspecified('signed message longer than the item limit')
        return sigmsg.valid_fast(key, msg, sig[:64])

    def OP_CHECK_SIG(self, f, n):
        self.sig_ext()
        allowed = self.u8(f)
        key = self.pop()
        sig = self.pop()
        self.push(b'\xff' if self._check_sig(key, sig, allowed) else b'\x00')

    def OP_CHECK_SIG_VERIFY(self, f, n):
        self.OP_CHECK_SIG(f, n)
        self.OP_VERIFY(f, n)

    def OP_CHECK_TIMESTAMP(self, f, n):
        c = self._content(self.pop())
        if len(c) == 0:
            raise VMError('malformed constraint')
        c = int.from_bytes(c, 'big')
        if 'timestamp' not in self.cache or \
                type(self.cache['timestamp']) is not int:
            raise VMError('missing / malformed timestamp')
        thr = f.flags.get('ts_threshold')
        if type(thr) is not int:
            raise VMError('missing / malformed ts_threshold')
        t = self.cache['timestamp']
        ok = t >= c and (thr <= 0 or t - self.cfg.now < thr)
        self.push(b'\xff' if ok else b'\x00')

    def OP_CHECK_TIMESTAMP_VERIFY(self, f, n):
        self.OP_CHECK_TIMESTAMP(f, n)
        self.OP_VERIFY(f, n)

    def OP_CHECK_EPOCH(self, f, n):
        c = self._content(self.pop())
        if len(c) == 0:
            raise VMError('malformed constraint')
        c = int.from_bytes(c, 'big')
        thr = f.flags.get('epoch_threshold')
        if type(thr) is not int or thr < 0:
            raise VMError('missing / malformed epoch_threshold')
        self.push(b'\xff' if c - self.cfg.now < thr else b'\x00')

    def OP_CHECK_EPOCH_VERIFY(self, f, n):
        self.OP_CHECK_EPOCH(f, n)
        self.OP_VERIFY(f, n)

    def OP_DEF(self, f, n):
        h = self.u8(f)
        body = self.blk(f)
        if f.in_def:
            raise Unspecified('DEF inside a DEF body')
        f.defs[h] = body

    def _budget(self, f):
        """CALL / EVAL limit. The documents do not define how the count
        accumulates: a chain deeper than the limit must fail; fewer total
        calls than the limit must not fail for this reason; in between is
        unspecified."""
        if f.depth >= self.cfg.limit:
            raise VMError('callstack limit exceeded')
        if self.total_calls >= self.cfg.limit:
            raise Unspecified('call budget: cumulative count undocumented')
        self.total_calls += 1

    def OP_CALL(self, f, n):
        if f.depth >= self.cfg.limit:
            raise VMError('callstack limit exceeded')
        h = self.u8(f)
        if self.total_calls >= self.cfg.limit:
            raise Unspecified('call budget: cumulative count undocumented')
        self.total_calls += 1
        if h not in f.defs:
            raise VMError('undefined function')
        body = f.defs[h]
        if body is UNSPEC_DEF:
            raise Unspecified('definition made inside a conditional / try / '
                              'loop body used after it')
        try:
            self.sub(f, body, n, depth=f.depth + 1, in_def=True)
        except _Return:
            pass

    def OP_IF(self, f, n):
        body = self.blk(f)
        if truthy(self._content(self.pop())):
            self.scoped_body(f, body, n)

    def OP_IF_ELSE(self, f, n):
        a = self.blk(f)
        b = self.blk(f)
        self.scoped_body(f, a if truthy(self._content(self.pop())) else b, n)

    def _eval(self, f, n, script):
        self._content(script)
        if len(script) == 0:
            raise VMError('empty script')
        try:
            self.sub(f, script, n, defs=dict(f.defs), flags=dict(f.flags),
                     depth=f.depth + 1, in_def=False)
        except _Return:
            if f.flags.get('eval_return'):
                raise

    def OP_EVAL(self, f, n):
        if 'disallow_OP_EVAL' in f.flags:
            raise VMError('OP_EVAL disallowed')
        self._budget(f)
        self._eval(f, n, self.pop())

    def OP_NOT(self, f, n):
        x = self._content(self.pop())
        self.push(bytes(b ^ 0xff for b in x))

    def OP_RANDOM(self, f, n):
        k = int_dec(self.pop())
        if k < 0 or k > self.cfg.max_item_size:
            raise VMError('bad random size')
        self.push(self.cfg.entropy(k))

    def OP_RETURN(self, f, n):
        raise _Return()

    def OP_SET_FLAG(self, f, n):
        self.lv1(f)
        raise Unspecified('SET_FLAG (judged in C09)')

    def OP_UNSET_FLAG(self, f, n):
        self.lv1(f)
        raise Unspecified('UNSET_FLAG (judged in C09)')

    def OP_DEPTH(self, f, n):
        self.push(int_item(len(self.stack)))

    def OP_SWAP(self, f, n):
        i, j = self.u8(f), self.u8(f)
        d = len(self.stack)
        if i == j:
            if i >= d:
                raise Unspecified('SWAP i i beyond the stack')
            return
        if max(i, j) >= d:
            raise VMError('swap index beyond the stack')
        s = self.stack
        s[d - 1 - i], s[d - 1 - j] = s[d - 1 - j], s[d - 1 - i]

    def OP_SWAP2(self, f, n):
        a = self.pop()
        b = self.pop()
        self.push(a)
        self.push(b)

    def OP_REVERSE(self, f, n):
        k = self.u8(f)
        if k > len(self.stack):
            raise VMError('reverse count beyond the stack')
        if k:
            self.stack[-k:] = self.stack[-k:][::-1]

    def OP_CONCAT(self, f, n):
        second = self._content(self.pop())
        first = self._content(self.pop())
        self.push(first + second)

    def OP_SPLIT(self, f, n):
        i = int_dec(self.pop())
        item = self._content(self.pop())
        if i < 0 or i > len(item):
            raise VMError('split index invalid')
        if i == len(item):
            raise Unspecified('SPLIT at index == length')
        self.push(item[:i])
        self.push(item[i:])

    def _str(self, b):
        try:
            return self._content(b).decode('utf-8')
        except UnicodeDecodeError:
            raise VMError('invalid utf-8')

    def OP_CONCAT_STR(self, f, n):
        second = self._str(self.pop())
        first = self._str(self.pop())
        self.push((first + second).encode('utf-8'))

    def OP_SPLIT_STR(self, f, n):
        i = int_dec(self.pop())
        s = self._str(self.pop())
        if i < 0 or i > len(s):
            raise VMError('split index invalid')
        if i == len(s):
            raise Unspecified('SPLIT_STR at index == length')
        self.push(s[:i].encode('utf-8'))
        self.push(s[i:].encode('utf-8'))

    def OP_CHECK_TRANSFER(self, f, n):
        cid = self._content(self.pop())
        amount = int_dec(self.pop())
        constraint = self._content(self.pop())
        dest = self._content(self.pop())
        count = int.from_bytes(self._content(self.pop()), 'big')
        sources = [self._content(self.pop()) for _ in range(count)]
        proofs = [self._content(self.pop()) for _ in range(count)]
        c = self.cfg.contracts.get(cid)
        if c is None or not hasattr(c, 'verify_txn_proof'):
            raise VMError('missing contract')
        ok = True
        for i in range(count):
            if not c.verify_txn_proof(proofs[i]):
                ok = False
            if not c.verify_transfer(proofs[i], sources[i], dest):
                ok = False
            if len(constraint) and not c.verify_txn_constraint(proofs[i],
                                                               constraint):
                ok = False
        agg = c.calc_txn_aggregates(proofs, scope=dest)[dest]
        self.push(b'\xff' if ok and amount <= agg else b'\x00')

    def OP_MERKLEVAL(self, f, n):
        root = self.read(f, 32)
        # documented as a sequence of ops that needs one transient slot
        if len(self.stack) + 1 > self.cfg.max_items or \
                self.cfg.max_item_size < 32:
            raise Unspecified('MERKLEVAL under stack / item limits that the '
                              'documented op sequence hits transiently')
        # "call OP_DUP then OP_SHA256 twice; move stack item at index 2 to the
        # top ...": with a single item the sequence fails at the move, the
        # duplicate having been hashed twice by then
        if len(self.stack) == 1:
            only = self._content(self.peek())
            self.push(hashlib.sha256(hashlib.sha256(only).digest()).digest())
            raise VMError('MERKLEVAL: no sibling hash under the script')
        script = self._content(self.pop())
        sib = self._content(self.pop())
        h = bytes(a ^ b for a, b in zip(
            hashlib.sha256(hashlib.sha256(script).digest()).digest(),
            hashlib.sha256(sib).digest()))
        if h != root:
            # documented as DUP .. EQUAL_VERIFY: the duplicated script is
            # still on the stack when the verification fails
            self.push(script)
            raise VMError('merkle commitment mismatch')
        # "... call OP_EQUAL_VERIFY; call OP_EVAL": the script is on the stack
        # when OP_EVAL starts
        self.push(script)
        self.OP_EVAL(f, n)

    def OP_TRY_EXCEPT(self, f, n):
        a = self.blk(f)
        b = self.blk(f)
        try:
            self.scoped_body(f, a, n)
        except VMError as e:
            if getattr(e, 'op', None) in AMBIGUOUS_FAIL_STATE:
                raise Unspecified('stack state after a failed multi-operand '
                                  'instruction (validation order '
                                  'undocumented)')
            self.errors_below_top += 1
            self.cache[b'E'] = [Opaque(0, 'error-text')]
            self.scoped_body(f, b, n)

    def OP_LESS(self, f, n):
        v1 = int_dec(self.pop())
        v2 = int_dec(self.pop())
        self.push(b'\xff' if v1 < v2 else b'\x00')

    def OP_LESS_OR_EQUAL(self, f, n):
        v1 = int_dec(self.pop())
        v2 = int_dec(self.pop())
        self.push(b'\xff' if v1 <= v2 else b'\x00')

    def OP_GET_VALUE(self, f, n):
        raw = self.lv1(f)
        try:
            key = raw.decode('utf-8')
        except UnicodeDecodeError:
            raise VMError('invalid utf-8 key')
        if key not in self.cache:
            raise VMError('key not in cache')
        v = self.cache[key]
        items = list(v) if isinstance(v, (list, tuple)) else [v]
        for val in items:
            if type(val) in (bytes, bytearray):
                self.push(bytes(val))
            elif type(val) is str:
                self.push(val.encode('utf-8'))
            elif type(val) is int:
                self.push(int_item(val))
            elif type(val) is float:
                try:
                    b = struct.pack('>f', val)
                except OverflowError:
                    raise VMError('float out of range')
                if val == val and struct.unpack('>f', b)[0] != val:
                    raise Unspecified('float not representable in 32 bits')
                self.push(b)

    def OP_FLOAT_LESS(self, f, n):
        v1 = f32_dec(self.pop())
        v2 = f32_dec(self.pop())
        self.push(b'\xff' if v1 < v2 else b'\x00')

    def OP_FLOAT_LESS_OR_EQUAL(self, f, n):
        v1 = f32_dec(self.pop())
        v2 = f32_dec(self.pop())
        self.push(b'\xff' if v1 <= v2 else b'\x00')

    def OP_INT_TO_FLOAT(self, f, n):
        v = int_dec(self.pop())
        try:
            x = float(v)
        except OverflowError:
            raise Unspecified('int beyond float range')
        if int(x) != v:
            raise Unspecified('int not exactly representable')
        try:
            b = struct.pack('>f', x)
        except OverflowError:
            raise Unspecified('int beyond float32 range')
        if struct.unpack('>f', b)[0] != x:
            raise Unspecified('int not exactly representable in float32')
        self.push(b)

    def OP_FLOAT_TO_INT(self, f, n):
        x = f32_dec(self.pop())
        if x != x or x in (math.inf, -math.inf):
            raise VMError('non-finite float')
        if x != int(x):
            raise Unspecified('fractional float (rounding mode undocumented)')
        self.push(int_item(int(x)))

    def OP_LOOP(self, f, n):
        body = self.blk(f)
        cond = self.peek()
        count = 0
        child = dict(f.defs)
        try:
            while truthy(self._content(cond)):
                if count >= self.cfg.limit:
                    raise VMError('OP_LOOP limit exceeded')
                try:
                    self.sub(f, body, n, defs=child)
                except _Return:
                    # RETURN ends the loop; execution continues after it and
                    # must not be affected further (property statement)
                    self.return_in_loop = True
                    return
                count += 1
                cond = self.peek()
        finally:
            for h, v in child.items():
                if f.defs.get(h, None) is not v:
                    f.defs[h] = UNSPEC_DEF

    return_in_loop = False

    def OP_CHECK_MULTISIG(self, f, n):
        self.sig_ext()
        allowed, m, k = self.u8(f), self.u8(f), self.u8(f)
        keys = [self._content(self.pop()) for _ in range(k)]
        sigs = [self._content(self.pop()) for _ in range(m)]
        if any(len(x) != 32 for x in keys) or \
                any(len(s) not in (64, 65) for s in sigs) or \
                any(len(s) == 65 and s[64] & ~allowed & 0xff for s in sigs):
            raise Unspecified('malformed multisig item / non-permitted flag: '
                              'false or error')
        adj = []
        for s in sigs:
            flag = s[64] if len(s) == 65 else 0
            msg = self.message(flag)
            if len(msg) > self.cfg.max_item_size:
                raise Unspecified('signed message longer than the item limit')
            adj.append({i for i, key in enumerate(keys)
                        if sigmsg.valid_fast(key, msg, s[:64])})
        if len(set(keys)) != len(keys):
            raise Unspecified('duplicate keys')

        def rec(i, used):
            if i == len(adj):
                return True
            return any(k_ not in used and rec(i + 1, used | {k_})
                       for k_ in adj[i])
        self.push(b'\xff' if rec(0, frozenset()) else b'\x00')

    def OP_CHECK_MULTISIG_VERIFY(self, f, n):
        self.OP_CHECK_MULTISIG(f, n)
        self.OP_VERIFY(f, n)

    def OP_SIGN(self, f, n):
        self.sig_ext()
        flag = self.u8(f)
        seed = self._content(self.pop())
        if len(seed) != 32:
            raise VMError('bad seed')
        msg = self.message(flag)
        if len(msg) > self.cfg.max_item_size:
            raise Unspecified('signed message longer than the item limit')
        sig = sigmsg.sign(seed, msg)
        if flag:
            sig += bytes([flag])
        if f.flags.get(9):
            self.cache[b's'] = sig
        self.push(sig)

    def OP_SIGN_STACK(self, f, n):
        seed = self._content(self.pop())
        msg = self._content(self.pop())
        if len(seed) != 32:
            raise VMError('bad seed')
        sig = sigmsg.sign(seed, msg)
        if f.flags.get(9):
            self.cache[b's'] = sig
        self.push(sig)

    def OP_CHECK_SIG_STACK(self, f, n):
        key = self._content(self.pop())
        if len(key) != 32:
            raise VMError('bad key')
        msg = self._content(self.pop())
        sig = self._content(self.pop())
        if len(sig) != 64:
            raise VMError('bad signature')
        self.push(b'\xff' if sigmsg.valid_fast(key, msg, sig) else b'\x00')

    def OP_DERIVE_SCALAR(self, f, n):
        seed = self._content(self.pop())
        h = bytearray(hashlib.sha512(seed).digest()[:32])
        h[0] &= 248
        h[31] &= 127
        h[31] |= 64
        x = bytes(h)
        if f.flags.get(1):
            self.cache[b'x'] = x
        self.push(x)

    def OP_CLAMP_SCALAR(self, f, n):
        is_key = truthy(self.read(f, 1))
        v = self._content(self.pop())
        if len(v) < 32:
            raise VMError('value too short')
        a = bytearray(v[:32])
        if is_key:
            a[0] &= 248
            a[31] |= 64
        a[31] &= 127
        self.push(bytes(a))

    def _scalar(self, b):
        self._content(b)
        if len(b) != 32:
            raise Unspecified('scalar operand that is not 32 bytes')
        v = int.from_bytes(b, 'little')
        if v >= L:
            raise Unspecified('unreduced scalar operand')
        return v

    def OP_ADD_SCALARS(self, f, n):
        k = self.u8(f)
        xs = [self.pop() for _ in range(k)]
        if k == 0:
            raise Unspecified('ADD_SCALARS 0')
        vals = [self._scalar(x) for x in xs]
        if k == 1 and vals[0] >= L:
            raise Unspecified('single unreduced scalar')
        self.push((sum(vals) % L).to_bytes(32, 'little'))

    def OP_SUBTRACT_SCALARS(self, f, n):
        k = self.u8(f)
        if k == 0:
            raise Unspecified('SUBTRACT_SCALARS 0')
        xs = [self.pop() for _ in range(k)]
        vals = [self._scalar(x) for x in xs]
        if k == 1 and vals[0] >= L:
            raise Unspecified('single unreduced scalar')
        self.push(((vals[0] - sum(vals[1:])) % L).to_bytes(32, 'little'))

    def OP_DERIVE_POINT(self, f, n):
        x = self._content(self.pop())
        if len(x) != 32:
            raise Unspecified('scalar operand that is not 32 bytes')
        X = base_mul(x)
        if f.flags.get(2):
            self.cache[b'X'] = X
        self.push(X)

    def OP_SUBTRACT_POINTS(self, f, n):
        k = self.u8(f)
        if k == 0:
            raise Unspecified('SUBTRACT_POINTS 0')
        pts = [self.pop() for _ in range(k)]
        for p in pts:
            if not point_ok(p):
                raise Unspecified('SUBTRACT_POINTS with an invalid point '
                                  '(validation undocumented)')
        acc = pts[0]
        for p in pts[1:]:
            acc = nb.crypto_core_ed25519_sub(acc, p)
        self.push(acc)

    def OP_MAKE_ADAPTER_SIG_PUBLIC(self, f, n):
        T = self.pop()
        m = self._content(self.pop())
        seed = self._content(self.pop())
        if not point_ok(T):
            raise VMError('invalid tweak point')
        if f.flags.get(3):
            self.cache[b'r'] = Opaque(32, 'r')
        if f.flags.get(4):
            self.cache[b'R'] = Opaque(32, 'R')
        if f.flags.get(6):
            self.cache[b'T'] = T
        if f.flags.get(8):
            self.cache[b'sa'] = Opaque(32, 'sa')
        self.push(Opaque(32, 'R'))
        self.push(Opaque(32, 'sa'))

    def OP_MAKE_ADAPTER_SIG_PRIVATE(self, f, n):
        seed = self._content(self.pop())
        t = self._content(self.pop())
        if len(t) < 32:
            raise VMError('tweak too short')
        t = clear255(t)
        m = self._content(self.pop())
        T = base_mul(t)
        if f.flags.get(4):
            self.cache[b'R'] = Opaque(32, 'R')
        if f.flags.get(5):
            self.cache[b't'] = t
        if f.flags.get(6):
            self.cache[b'T'] = T
        if f.flags.get(8):
            self.cache[b'sa'] = Opaque(32, 'sa')
        self.push(T)
        self.push(Opaque(32, 'R'))
        self.push(Opaque(32, 'sa'))

    def OP_CHECK_ADAPTER_SIG(self, f, n):
        X = self._content(self.pop())
        T = self._content(self.pop())
        m = self._content(self.pop())
        R = self._content(self.pop())
        sa = self._content(self.pop())
        for p in (R, T, X):
            if not point_ok(p):
                raise Unspecified('adapter check with an invalid point')
        if len(sa) != 32:
            raise Unspecified('sa not 32 bytes')
        s = int.from_bytes(sa, 'little')
        if s >= L:
            if (s & MASK255) % L == 0:
                raise Unspecified('degenerate non-canonical sa')
            self.push(b'\x00')
            return
        RT = nb.crypto_core_ed25519_add(R, T)
        ca = E.sha512_int(RT, X, m) % L
        lhs = base_mul(sa) if s else None
        if lhs is None:
            raise Unspecified('sa == 0')
        if ca == 0:
            raise Unspecified('degenerate challenge')
        caX = nb.crypto_scalarmult_ed25519_noclamp(ca.to_bytes(32, 'little'), X)
        rhs = nb.crypto_core_ed25519_add(R, caX)
        self.push(b'\xff' if lhs == rhs else b'\x00')

    def OP_DECRYPT_ADAPTER_SIG(self, f, n):
        t = self.pop()
        R = self.pop()
        sa = self.pop()
        if is_opaque(t):
            raise Unspecified('opaque tweak')
        if len(t) < 32:
            raise VMError('tweak too short')
        t = clear255(t)
        if is_opaque(R) or is_opaque(sa):
            if not (is_opaque(R) and R.tag in ('R', 'RT')) or \
                    not (is_opaque(sa) and sa.tag in ('sa', 's')):
                raise Unspecified('adapter decryption on opaque operands of '
                                  'the wrong kind')
            T = base_mul(t)
            RT, s = Opaque(32, 'RT'), Opaque(32, 's')
        else:
            if not point_ok(R):
                raise VMError('invalid nonce point')
            if len(sa) != 32:
                raise Unspecified('sa not 32 bytes')
            if int.from_bytes(sa, 'little') >= L:
                raise Unspecified('unreduced scalar operand')
            T = base_mul(t)
            RT = nb.crypto_core_ed25519_add(R, T)
            s = ((int.from_bytes(sa, 'little') + int.from_bytes(t, 'little'))
                 % L).to_bytes(32, 'little')
        if f.flags.get(7):
            self.cache[b'RT'] = RT
        if f.flags.get(9):
            self.cache[b's'] = s
        self.push(RT)
        self.push(s)

    def OP_INVOKE(self, f, n):
        cid = self._content(self.pop())
        argc = int_dec(self.pop())
        if argc < 0:
            raise VMError('negative argcount')
        args = [self._content(self.pop()) for _ in range(argc)]
        c = self.cfg.contracts.get(cid)
        if c is None or not hasattr(c, 'abi'):
            raise VMError('unknown contract')
        res = c.abi(list(args))
        if res is not None:
            if not isinstance(res, (list, tuple)):
                raise VMError('bad abi result')
            for r in res:
                if type(r) is not bytes:
                    raise VMError('bad abi result element')
                self.push(r)
            if f.flags.get(0):
                self.cache[b'IR'] = res

    def _bitop(self, fn):
        a = self._content(self.pop())
        b = self._content(self.pop())
        k = max(len(a), len(b))
        a = a + bytes(k - len(a))
        b = b + bytes(k - len(b))
        self.push(bytes(fn(x, y) for x, y in zip(a, b)))

    def OP_XOR(self, f, n):
        self._bitop(lambda x, y: x ^ y)

    def OP_OR(self, f, n):
        self._bitop(lambda x, y: x | y)

    def OP_AND(self, f, n):
        self._bitop(lambda x, y: x & y)

    def OP_CHECK_TEMPLATE(self, f, n):
        if f.flags.get(10, True):
            self.sig_ext()
        flag = self.u8(f)
        ok = True
        plugins = self.cfg.plugins.get('check_template', ())
        for i in range(1, 9):
            if (flag >> (i - 1)) & 1:
                tmpl = self._content(self.pop())
                k = f'sigfield{i}'
                if k not in self.cache:
                    raise VMError('missing sigfield')
                field = self.cache[k]
                if not plugins:
                    ok = ok and tmpl == field
                else:
                    view = _TwoItems(field, tmpl)
                    res = [p(None, view, self.cache) for p in plugins]
                    ok = ok and any(res)
        self.push(b'\xff' if ok else b'\x00')

    def OP_CHECK_TEMPLATE_VERIFY(self, f, n):
        self.OP_CHECK_TEMPLATE(f, n)
        self.OP_VERIFY(f, n)

    def OP_TAPROOT(self, f, n):
        allowed = self.u8(f)
        root = self._content(self.pop())
        if len(root) != 32:
            raise VMError('root not 32 bytes')
        nxt = self.peek()
        self._content(nxt)
        if len(nxt) == 32:
            pk = self.pop()
            script = self._content(self.pop())
            if not point_ok(pk):
                raise VMError('invalid internal key')
            t = clear255(hashlib.sha256(
                pk + hashlib.sha256(script).digest()).digest())
            pt = nb.crypto_core_ed25519_add(base_mul(t), pk)
            if pt != root:
                self.push(b'\x00')
                return
            # "put the script back on the stack and OP_EVAL"
            self.push(script)
            self.OP_EVAL(f, n)
        else:
            sig = self.pop()
            self.sig_ext()
            self.push(b'\xff' if self._check_sig(root, sig, allowed)
                      else b'\x00')


def run(code: bytes, cache: dict, cfg: Config):
    """-> ('ok', stack, cache, vm) | ('error', None, None, vm);
    raises Unspecified"""
    vm = VM(cfg, cache)
    try:
        vm.run_top(code)
    except VMError:
        return 'error', None, None, vm
    except RecursionError:
        raise Unspecified('model recursion limit')
    return 'ok', vm.stack, vm.cache, vm


def run_auth(scripts, cache: dict, cfg: Config):
    """Model of run_auth_scripts as its docstring states it: the scripts run
    in order on ONE stack and ONE cache, function definitions and the call
    budget carry over, every script runs to its own end or its own RETURN, and
    the verdict is "nothing raised and the stack is exactly [ff]".
    -> True | False; raises Unspecified where the documents do not decide."""
    m = VM(cfg, cache)
    defs: dict = {}
    try:
        for code in scripts:
            f = Frame(bytes(code), defs, {**DEFAULT_FLAGS, **cfg.flags}, 0)
            try:
                m.run(f, 0)
            except _Return:
                pass
            defs = f.defs
            if m.return_in_loop:
                raise Unspecified('RETURN inside a LOOP body')
    except VMError:
        if m.return_in_loop:
            raise Unspecified('RETURN inside a LOOP body')
        return False
    except RecursionError:
        raise Unspecified('model recursion limit')
    if len(m.stack) != 1:
        return False
    top = m.stack[0]
    if is_opaque(top):
        raise Unspecified('opaque final item')
    return bytes(top) == b'\xff'
