"""Pure-Python Ed25519 (RFC 8032) reference: field / point arithmetic in
extended coordinates, encoding, sign, verify, scalar ops mod L, and the validity
predicates libsodium applies to points. Imports nothing from tapescript/nacl.
"""
from __future__ import annotations
import hashlib

P = 2**255 - 19
L = 2**252 + 27742317777372353535851937790883648493
D = (-121665 * pow(121666, P - 2, P)) % P
I = pow(2, (P - 1) // 4, P)


def _inv(x: int) -> int:
    return pow(x, P - 2, P)


def _recover_x(y: int, sign: int):
    if y >= P:
        return None
    x2 = (y * y - 1) * _inv(D * y * y + 1) % P
    if x2 == 0:
        return None if sign else 0
    x = pow(x2, (P + 3) // 8, P)
    if (x * x - x2) % P != 0:
        x = x * I % P
    if (x * x - x2) % P != 0:
        return None
    if (x & 1) != sign:
        x = P - x
    return x


GY = 4 * _inv(5) % P
GX = _recover_x(GY, 0)
G = (GX, GY, 1, GX * GY % P)
ZERO = (0, 1, 1, 0)


def add(p, q):
    x1, y1, z1, t1 = p
    x2, y2, z2, t2 = q
    a = (y1 - x1) * (y2 - x2) % P
    b = (y1 + x1) * (y2 + x2) % P
    c = 2 * t1 * t2 * D % P
    d = 2 * z1 * z2 % P
    e, f, g, h = b - a, d - c, d + c, b + a
    return (e * f % P, g * h % P, f * g % P, e * h % P)


def neg(p):
    x, y, z, t = p
    return ((-x) % P, y, z, (-t) % P)


def sub(p, q):
    return add(p, neg(q))


def mul(s: int, p):
    q = ZERO
    while s > 0:
        if s & 1:
            q = add(q, p)
        p = add(p, p)
        s >>= 1
    return q


def eq(p, q) -> bool:
    x1, y1, z1, _ = p
    x2, y2, z2, _ = q
    return (x1 * z2 - x2 * z1) % P == 0 and (y1 * z2 - y2 * z1) % P == 0


def encode(p) -> bytes:
    x, y, z, _ = p
    zi = _inv(z)
    x, y = x * zi % P, y * zi % P
    return (y | ((x & 1) << 255)).to_bytes(32, 'little')


def decode(b: bytes):
    """Point from 32 bytes, or None when the encoding is not a curve point."""
    if len(b) != 32:
        return None
    y = int.from_bytes(b, 'little')
    sign = y >> 255
    y &= (1 << 255) - 1
    x = _recover_x(y, sign)
    if x is None:
        return None
    return (x, y, 1, x * y % P)


def is_canonical(b: bytes) -> bool:
    y = int.from_bytes(b, 'little') & ((1 << 255) - 1)
    return y < P


def has_small_order(p) -> bool:
    return eq(mul(8, p), ZERO)


def in_main_subgroup(p) -> bool:
    return eq(mul(L, p), ZERO)


def is_valid_point(b: bytes) -> bool:
    """libsodium crypto_core_ed25519_is_valid_point: canonical, on curve,
    not small order, in the prime-order subgroup."""
    if len(b) != 32 or not is_canonical(b):
        return False
    p = decode(b)
    if p is None:
        return False
    return (not has_small_order(p)) and in_main_subgroup(p)


def point_class(b: bytes) -> str:
    """'invalid' (libsodium must reject: wrong length, non-canonical, off
    curve, small order), 'main' (prime-order subgroup: must accept) or 'mixed'
    (on curve with a torsion component — the bundled libsodium accepts some of
    these, the documents say nothing: callers treat it as unspecified)."""
    if len(b) != 32 or not is_canonical(b):
        return 'invalid'
    p = decode(b)
    if p is None or has_small_order(p):
        return 'invalid'
    return 'main' if in_main_subgroup(p) else 'mixed'


def base_mul(s: int) -> bytes:
    return encode(mul(s % L if s >= L else s, G))


def sc(b: bytes) -> int:
    return int.from_bytes(b, 'little')


def sc_bytes(n: int) -> bytes:
    return (n % L).to_bytes(32, 'little')


def sha512_int(*parts: bytes) -> int:
    return int.from_bytes(hashlib.sha512(b''.join(parts)).digest(), 'little')


def clamp(h32: bytes) -> int:
    a = bytearray(h32[:32])
    a[0] &= 248
    a[31] &= 127
    a[31] |= 64
    return int.from_bytes(a, 'little')


def secret_expand(seed: bytes):
    h = hashlib.sha512(seed).digest()
    return clamp(h[:32]), h[32:]


def public_key(seed: bytes) -> bytes:
    a, _ = secret_expand(seed)
    return encode(mul(a, G))


def sign(seed: bytes, msg: bytes) -> bytes:
    a, prefix = secret_expand(seed)
    A = encode(mul(a, G))
    r = sha512_int(prefix, msg) % L
    R = encode(mul(r, G))
    h = sha512_int(R, A, msg) % L
    s = (r + h * a) % L
    return R + s.to_bytes(32, 'little')


def verify(pub: bytes, msg: bytes, sig: bytes) -> bool:
    """RFC 8032 verification with libsodium's extra rejections (non-canonical
    S, small-order R / A, non-canonical A)."""
    if len(pub) != 32 or len(sig) != 64:
        return False
    Rb, Sb = sig[:32], sig[32:]
    s = int.from_bytes(Sb, 'little')
    if s >= L:
        return False
    A = decode(pub)
    R = decode(Rb)
    if A is None or R is None:
        return False
    if not is_canonical(pub) or has_small_order(A) or has_small_order(R):
        return False
    h = sha512_int(Rb, pub, msg) % L
    return encode(sub(mul(s, G), mul(h, A))) == Rb
