"""Merklized-script commitment arithmetic from language_spec.md / readme.md:

  OP_MERKLEVAL <root>: with [.., sibling_commitment, script] on the stack the
  script runs iff  sha256(sha256(script)) xor sha256(sibling_commitment) == root.
  leaf commitment = sha256(leaf script); node commitment = sha256 of the node's
  locking script `OP_MERKLEVAL <node root>` (0x3c || root).
Trees are nested tuples: a leaf is bytes, a node is (left, right).
"""
from __future__ import annotations
import hashlib

MERKLEVAL = 0x3c


def H(b: bytes) -> bytes:
    return hashlib.sha256(b).digest()


def xor(a: bytes, b: bytes) -> bytes:
    return bytes(x ^ y for x, y in zip(a, b))


def lock_bytes(root: bytes) -> bytes:
    return bytes([MERKLEVAL]) + root


def commitment(t) -> bytes:
    if isinstance(t, bytes):
        return H(t)
    return H(lock_bytes(root(t)))


def root(node) -> bytes:
    l, r = node
    return xor(H(commitment(l)), H(commitment(r)))


def pair_hash(script: bytes, sibling: bytes) -> bytes:
    return xor(H(H(script)), H(sibling))


def proofs(tree):
    """yield (leaf bytes, [(sibling_commitment, script), ...]) leaf level
    first, for every leaf in left-to-right order."""
    def walk(t, path):
        if isinstance(t, bytes):
            yield t, list(reversed(path))
            return
        l, r = t
        # entering child c of node t: the level for c is (commit(sibling), c)
        for child, sib in ((l, r), (r, l)):
            me = child if isinstance(child, bytes) else lock_bytes(root(child))
            yield from walk(child, path + [(commitment(sib), me)])
    yield from walk(tree, [])


def simulate(items, top_root: bytes):
    """items: witness stack (bottom first). -> (executed scripts in order,
    accepted_to_leaf: bool, leaf script or None). A supplied script executes
    iff its (script, sibling) pair hashes to the root expected at its level."""
    items = list(items)
    cur = top_root
    executed = []
    while True:
        if len(items) < 2:
            return executed, False, None
        script = items.pop()
        sib = items.pop()
        if pair_hash(script, sib) != cur:
            return executed, False, None
        executed.append(script)
        if len(script) == 33 and script[0] == MERKLEVAL:
            cur = script[1:]
            continue
        return executed, True, script


def shapes(n):
    """all binary tree shapes with n leaves as nested tuples of None"""
    if n == 1:
        yield None
        return
    for k in range(1, n):
        for l in shapes(k):
            for r in shapes(n - k):
                yield (l, r)


def fill(shape, leaves):
    """replace the None leaves of a shape by the given scripts in order"""
    it = iter(leaves)

    def rec(s):
        if s is None:
            return next(it)
        return (rec(s[0]), rec(s[1]))
    return rec(shape)


def depth(t) -> int:
    if isinstance(t, bytes) or t is None:
        return 0
    return 1 + max(depth(t[0]), depth(t[1]))
