"""Taproot commitment arithmetic from the spec text, pure Python:
    root = P + clamp(sha256(P || sha256(S))) * G
where clamp (not a private key) clears bit 255 of the little-endian integer.
"""
from __future__ import annotations
import hashlib

from . import ed25519 as E


def tweak_scalar(P: bytes, script_commitment: bytes) -> int:
    h = hashlib.sha256(P + script_commitment).digest()
    return int.from_bytes(h, 'little') & ((1 << 255) - 1)


def root_from_commitment(P: bytes, script_commitment: bytes):
    """-> 32-byte root, or None when P is not a curve point"""
    pt = E.decode(P)
    if pt is None:
        return None
    t = tweak_scalar(P, script_commitment)
    return E.encode(E.add(pt, E.mul(t, E.G)))


def root(P: bytes, script: bytes):
    return root_from_commitment(P, hashlib.sha256(script).digest())


def parse_lock(lock: bytes):
    """`PUSH1 32 <root> TAPROOT <flags>` -> (root, flags) or None"""
    if len(lock) == 36 and lock[0] == 0x03 and lock[1] == 32 \
            and lock[34] == 0x5b:
        return lock[2:34], lock[35]
    return None
