"""Documented signatures of the builder functions that have optional
arguments: parameter order and default values as printed in docs.md at the
pinned commit (transcribed by hand-checked script; NOT read from the code under
test)."""

REQUIRED = object()

DOC = {
    'make_script_tree_prioritized': [
        ('leaves', REQUIRED),
        ('tree', None),
    ],
    'make_timestamp_after_lock': [
        ('ts', REQUIRED),
        ('op_verify', False),
    ],
    'make_timestamp_before_lock': [
        ('ts', REQUIRED),
        ('op_verify', False),
    ],
    'make_timestamp_between_lock': [
        ('begin_ts', REQUIRED),
        ('end_ts', REQUIRED),
        ('op_verify', False),
    ],
    'make_adapter_lock_pub': [
        ('pubkey', REQUIRED),
        ('tweak_point', REQUIRED),
        ('sigflags', '00'),
    ],
    'make_adapter_lock_prv': [
        ('pubkey', REQUIRED),
        ('tweak', REQUIRED),
        ('sigflags', '00'),
    ],
    'make_single_sig_lock': [
        ('pubkey', REQUIRED),
        ('sigflags', '00'),
    ],
    'make_single_sig_lock2': [
        ('pubkey', REQUIRED),
        ('sigflags', '00'),
    ],
    'make_single_sig_witness': [
        ('prvkey', REQUIRED),
        ('sigfields', REQUIRED),
        ('sigflags', '00'),
        ('sign_script_prefix', ''),
    ],
    'make_single_sig_witness2': [
        ('prvkey', REQUIRED),
        ('sigfields', REQUIRED),
        ('sigflags', '00'),
        ('sign_script_prefix', ''),
    ],
    'make_multisig_lock': [
        ('pubkeys', REQUIRED),
        ('quorum_size', REQUIRED),
        ('sigflags', '00'),
    ],
    'make_adapter_locks_pub': [
        ('pubkey', REQUIRED),
        ('tweak_point', REQUIRED),
        ('sigflags', '00'),
    ],
    'make_adapter_locks_prv': [
        ('pubkey', REQUIRED),
        ('tweak', REQUIRED),
        ('sigflags', '00'),
    ],
    'make_adapter_witness': [
        ('prvkey', REQUIRED),
        ('tweak_point', REQUIRED),
        ('sigfields', REQUIRED),
        ('sigflags', '00'),
        ('sign_script_prefix', ''),
    ],
    'make_delegate_key_lock': [
        ('root_pubkey', REQUIRED),
        ('sigflags', '00'),
    ],
    'make_delegate_key_cert': [
        ('root_skey', REQUIRED),
        ('delegate_pubkey', REQUIRED),
        ('begin_ts', REQUIRED),
        ('end_ts', REQUIRED),
        ('can_further_delegate', True),
    ],
    'make_delegate_key_witness': [
        ('delegate_prvkey', REQUIRED),
        ('cert', REQUIRED),
        ('sigfields', REQUIRED),
        ('sigflags', '00'),
        ('sign_script_prefix', ''),
    ],
    'make_delegate_key_chain_witness': [
        ('delegate_prvkey', REQUIRED),
        ('certs', REQUIRED),
        ('sigfields', REQUIRED),
        ('sigflags', '00'),
        ('sign_script_prefix', ''),
    ],
    'make_htlc_sha256_lock': [
        ('receiver_pubkey', REQUIRED),
        ('refund_pubkey', REQUIRED),
        ('preimage', None),
        ('digest', None),
        ('timeout', 86400),
        ('sigflags', '00'),
    ],
    'make_htlc_shake256_lock': [
        ('receiver_pubkey', REQUIRED),
        ('refund_pubkey', REQUIRED),
        ('preimage', None),
        ('digest', None),
        ('hash_size', 20),
        ('timeout', 86400),
        ('sigflags', '00'),
    ],
    'make_htlc_witness': [
        ('prvkey', REQUIRED),
        ('preimage', REQUIRED),
        ('sigfields', REQUIRED),
        ('sigflags', '00'),
        ('sign_script_prefix', ''),
    ],
    'make_htlc2_sha256_lock': [
        ('receiver_pubkey', REQUIRED),
        ('refund_pubkey', REQUIRED),
        ('preimage', None),
        ('digest', None),
        ('timeout', 86400),
        ('sigflags', '00'),
    ],
    'make_htlc2_shake256_lock': [
        ('receiver_pubkey', REQUIRED),
        ('refund_pubkey', REQUIRED),
        ('preimage', None),
        ('digest', None),
        ('hash_size', 20),
        ('timeout', 86400),
        ('sigflags', '00'),
    ],
    'make_htlc2_witness': [
        ('prvkey', REQUIRED),
        ('preimage', REQUIRED),
        ('sigfields', REQUIRED),
        ('sigflags', '00'),
        ('sign_script_prefix', ''),
    ],
    'make_ptlc_lock': [
        ('receiver_pubkey', REQUIRED),
        ('refund_pubkey', REQUIRED),
        ('tweak_point', None),
        ('timeout', 86400),
        ('sigflags', '00'),
    ],
    'make_ptlc_witness': [
        ('prvkey', REQUIRED),
        ('sigfields', REQUIRED),
        ('tweak_scalar', None),
        ('sigflags', '00'),
        ('sign_script_prefix', ''),
    ],
    'make_ptlc_refund_witness': [
        ('prvkey', REQUIRED),
        ('sigfields', REQUIRED),
        ('sigflags', '00'),
        ('sign_script_prefix', ''),
    ],
    'make_taproot_lock': [
        ('pubkey', REQUIRED),
        ('script', None),
        ('script_commitment', None),
        ('sigflags', '00'),
    ],
    'make_taproot_witness_keyspend': [
        ('prvkey', REQUIRED),
        ('sigfields', REQUIRED),
        ('committed_script', None),
        ('script_commitment', None),
        ('sigflags', '00'),
        ('sign_script_prefix', ''),
    ],
    'make_nonnative_taproot_lock': [
        ('pubkey', REQUIRED),
        ('script', None),
        ('script_commitment', None),
        ('sigflags', '00'),
    ],
    'make_graftap_lock': [
        ('pubkey', REQUIRED),
        ('sigflags', '00'),
    ],
    'make_graftap_witness_keyspend': [
        ('prvkey', REQUIRED),
        ('sigfields', REQUIRED),
        ('sigflags', '00'),
        ('sign_script_prefix', ''),
    ],
    'setup_amhl': [
        ('seed', REQUIRED),
        ('pubkeys', REQUIRED),
        ('sigflags', '00'),
        ('refund_pubkeys', None),
        ('timeout', 86400),
    ],
    # not listed in docs.md; the README calls them without the optional
    # arguments next to their documented siblings, whose defaults they share
    'make_delegate_key_chain_lock': [
        ('root_pubkey', REQUIRED),
        ('sigflags', '00'),
    ],
    'make_graftroot_lock': [
        ('pubkey', REQUIRED),
        ('sigflags', '00'),
    ],
    'make_graftroot_witness_keyspend': [
        ('prvkey', REQUIRED),
        ('sigfields', REQUIRED),
        ('sigflags', '00'),
        ('sign_script_prefix', ''),
    ],
}
