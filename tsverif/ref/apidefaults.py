"""Documented signatures of the builder functions that have optional
arguments: parameter order and default values as printed in docs.md at the
pinned commit (transcribed by hand-checked script; NOT read from the code under
test)."""

REQUIRED = object()

DOC = {
    'make_script_tree_prioritized': [
        ('leaves', REQUIRED),
        ('tree', None),
    ],
    'make_timestamp_after_lock': [
        ('ts', REQUIRED),
        ('op_verify', False),
    ],
    'make_timestamp_before_lock': [
        ('ts', REQUIRED),
        ('op_verify', False),
    ],
    'make_timestamp_between_lock': [
        ('begin_ts', REQUIRED),
        ('end_ts', REQUIRED),
        ('op_verify', False),
    ],
    'make_adapter_lock_pub': [
        ('pubkey', REQUIRED),
        ('tweak_point', REQUIRED),
        ('sigflags', '00'),
    ],
    'make_adapter_lock_prv': [
        ('pubkey', REQUIRED),
        ('tweak', REQUIRED),
        ('sigflags', '00'),
    ],
    'make_single_sig_lock': [
        ('pubkey', REQUIRED),
        ('sigflags', '00'),
    ],
    'make_single_sig_lock2': [
        ('pubkey', REQUIRED),
        ('sigflags', '00'),
    ],
    'make_single_sig_witness': [
        ('prvkey', REQUIRED),
        ('sigfields', REQUIRED),
        ('sigflags', '00'),
        ('sign_script_prefix', ''),
    ],
    'make_single_sig_witness2': [
        ('prvkey', REQUIRED),
        ('sigfields', REQUIRED),
        ('sigflags', '00'),
        ('sign_script_prefix', ''),
    ],
    'make_multisig_lock': [
        ('pubkeys', REQUIRED),
        ('quorum_size', REQUIRED),
        ('sigflags', '00'),
    ],
    'make_adapter_locks_pub': [
        ('pubkey', REQUIRED),
        ('tweak_point', REQUIRED),
        ('sigflags', '00'),
    ],
    'make_adapter_locks_prv': [
        ('pubkey', REQUIRED),
        ('tweak', REQUIRED),
        ('sigflags', '00'),
    ],
    'make_adapter_witness': [
        ('prvkey', REQUIRED),
        ('tweak_point', REQUIRED),
        ('sigfields', REQUIRED),
        ('sigflags', '00'),
        ('sign_script_prefix', ''),
    ],
    'make_delegate_key_lock': [
        ('root_pubkey', REQUIRED),
        ('sigflags', '00'),
    ],
    'make_delegate_key_cert': [
        ('root_skey', REQUIRED),
        ('delegate_pubkey', REQUIRED),
        ('begin_ts', REQUIRED),
        ('end_ts', REQUIRED),
        ('can_further_delegate', True),
    ],
    'make_delegate_key_witness': [
        ('delegate_prvkey', REQUIRED),
        ('cert', REQUIRED),
        ('sigfields', REQUIRED),
        ('sigflags', '00'),
        ('sign_script_prefix', ''),
    ],
    'make_delegate_key_chain_witness': [
        ('delegate_prvkey', REQUIRED),
        ('certs', REQUIRED),
        ('sigfields', REQUIRED),
        ('sigflags', '00'),
        ('sign_script_prefix', ''),
    ],
    'make_htlc_sha256_lock': [
        ('receiver_pubkey', REQUIRED),
        ('refund_pubkey', REQUIRED),
        ('preimage', None),
        ('digest', None),
        ('timeout', 86400),
        ('sigflags', '00'),
    ],
    'make_htlc_shake256_lock': [
        ('receiver_pubkey', REQUIRED),
        ('refund_pubkey', REQUIRED),
        ('preimage', None),
        ('digest', None),
        ('hash_size', 20),
        ('timeout', 86400),
        ('sigflags', '00'),
    ],
    'make_htlc_witness': [
        ('prvkey', REQUIRED),
        ('preimage', REQUIRED),
        ('sigfields', REQUIRED),
        ('sigflags', '00'),
        ('sign_script_prefix', ''),
    ],
    'make_htlc2_sha256_lock': [
        ('receiver_pubkey', REQUIRED),
        ('refund_pubkey', REQUIRED),
        ('preimage', None),
        ('digest', None),
        ('timeout', 86400),
        ('sigflags', '00'),
    ],
    'make_htlc2_shake256_lock': [
        ('receiver_pubkey', REQUIRED),
        ('refund_pubkey', REQUIRED),
        ('preimage', None),
        ('digest', None),
        ('hash_size', 20),
        ('timeout', 86400),
        ('sigflags', '00'),
    ],
    'make_htlc2_witness': [
        ('prvkey', REQUIRED),
        ('preimage', REQUIRED),
        ('sigfields', REQUIRED),
        ('sigflags', '00'),
        ('sign_script_prefix', ''),
    ],
    'make_ptlc_lock': [
        ('receiver_pubkey', REQUIRED),
        ('refund_pubkey', REQUIRED),
        ('tweak_point', None),
        ('timeout', 86400),
        ('sigflags', '00'),
    ],
    'make_ptlc_witness': [
        ('prvkey', REQUIRED),
        ('sigfields', REQUIRED),
        ('tweak_scalar', None),
        ('sigflags', '00'),
        ('sign_script_prefix', ''),
    ],
    'make_ptlc_refund_witness': [
        ('prvkey', REQUIRED),
        ('sigfields', REQUIRED),
        ('sigflags', '00'),
        ('sign_script_prefix', ''),
    ],
    'make_taproot_lock': [
        ('pubkey', REQUIRED),
        ('script', None),
        ('script_commitment', None),
        ('sigflags', '00'),
    ],
    'make_taproot_witness_keyspend': [
        ('prvkey', REQUIRED),
        ('sigfields', REQUIRED),
        ('committed_script', None),
        ('script_commitment', None),
        ('sigflags', '00'),
        ('sign_script_prefix', ''),
    ],
    'make_nonnative_taproot_lock': [
        ('pubkey', REQUIRED),
        ('script', None),
        ('script_commitment', None),
        ('sigflags', '00'),
    ],
    'make_graftap_lock': [
        ('pubkey', REQUIRED),
        ('sigflags', '00'),
    ],
    'make_graftap_witness_keyspend': [
        ('prvkey', REQUIRED),
        ('sigfields', REQUIRED),
        ('sigflags', '00'),
        ('sign_script_prefix', ''),
    ],
    'setup_amhl': [
        ('seed', REQUIRED),
        ('pubkeys', REQUIRED),
        ('sigflags', '00'),
        ('refund_pubkeys', None),
        ('timeout', 86400),
    ],
    # not listed in docs.md; the README calls them without the optional
    # arguments next to their documented siblings, whose defaults they share
    'make_delegate_key_chain_lock': [
        ('root_pubkey', REQUIRED),
        ('sigflags', '00'),
    ],
    'make_graftroot_lock': [
        ('pubkey', REQUIRED),
        ('sigflags', '00'),
    ],
    'make_graftroot_witness_keyspend': [
        ('prvkey', REQUIRED),
        ('sigfields', REQUIRED),
        ('sigflags', '00'),
        ('sign_script_prefix', ''),
    ],
}


# (setup_amhl's refund_pubkeys is annotated dict[bytes | VerifyKey, bytes] but
# VerifyKey keys are silently ignored; what the refund lock of a hop is lies
# outside the 20 properties, so that parameter is not varied - DESIGN.md 11)
# Argument forms docs.md declares interchangeable (annotation `bytes | VerifyKey`
# etc.): parameter order and the kind of each union-typed parameter.
FORMS = {
    'make_adapter_lock_pub': [('pubkey', 'vkey'), ('tweak_point', None), ('sigflags', None)],
    'make_single_sig_lock': [('pubkey', 'vkey'), ('sigflags', None)],
    'make_single_sig_lock2': [('pubkey', 'vkey'), ('sigflags', None)],
    'make_single_sig_witness': [('prvkey', 'skey'), ('sigfields', None), ('sigflags', None), ('sign_script_prefix', None)],
    'make_single_sig_witness2': [('prvkey', 'skey'), ('sigfields', None), ('sigflags', None), ('sign_script_prefix', None)],
    'make_multisig_lock': [('pubkeys', 'vkeys'), ('quorum_size', None), ('sigflags', None)],
    'make_adapter_locks_pub': [('pubkey', 'vkey'), ('tweak_point', None), ('sigflags', None)],
    'decrypt_adapter': [('adapter_witness', 'script_or_bytes'), ('tweak', None)],
    'make_adapter_locks_prv': [('pubkey', 'vkey'), ('tweak', None), ('sigflags', None)],
    'make_adapter_witness': [('prvkey', 'skey'), ('tweak_point', None), ('sigfields', None), ('sigflags', None), ('sign_script_prefix', None)],
    'make_delegate_key_lock': [('root_pubkey', 'vkey'), ('sigflags', None)],
    'make_delegate_key_cert': [('root_skey', 'skey'), ('delegate_pubkey', 'vkey'), ('begin_ts', None), ('end_ts', None), ('can_further_delegate', None)],
    'make_delegate_key_witness': [('delegate_prvkey', 'skey'), ('cert', 'cert'), ('sigfields', None), ('sigflags', None), ('sign_script_prefix', None)],
    'make_delegate_key_chain_witness': [('delegate_prvkey', 'skey'), ('certs', 'certs'), ('sigfields', None), ('sigflags', None), ('sign_script_prefix', None)],
    'make_htlc_sha256_lock': [('receiver_pubkey', 'vkey'), ('refund_pubkey', 'vkey'), ('preimage', None), ('digest', None), ('timeout', None), ('sigflags', None)],
    'make_htlc_shake256_lock': [('receiver_pubkey', 'vkey'), ('refund_pubkey', 'vkey'), ('preimage', None), ('digest', None), ('hash_size', None), ('timeout', None), ('sigflags', None)],
    'make_htlc_witness': [('prvkey', 'skey'), ('preimage', None), ('sigfields', None), ('sigflags', None), ('sign_script_prefix', None)],
    'make_htlc2_sha256_lock': [('receiver_pubkey', 'vkey'), ('refund_pubkey', 'vkey'), ('preimage', None), ('digest', None), ('timeout', None), ('sigflags', None)],
    'make_htlc2_shake256_lock': [('receiver_pubkey', 'vkey'), ('refund_pubkey', 'vkey'), ('preimage', None), ('digest', None), ('hash_size', None), ('timeout', None), ('sigflags', None)],
    'make_htlc2_witness': [('prvkey', 'skey'), ('preimage', None), ('sigfields', None), ('sigflags', None), ('sign_script_prefix', None)],
    'make_ptlc_lock': [('receiver_pubkey', 'vkey'), ('refund_pubkey', 'vkey'), ('tweak_point', None), ('timeout', None), ('sigflags', None)],
    'make_ptlc_witness': [('prvkey', 'skey'), ('sigfields', None), ('tweak_scalar', None), ('sigflags', None), ('sign_script_prefix', None)],
    'make_ptlc_refund_witness': [('prvkey', 'skey'), ('sigfields', None), ('sigflags', None), ('sign_script_prefix', None)],
    'make_taproot_lock': [('pubkey', 'vkey'), ('script', None), ('script_commitment', None), ('sigflags', None)],
    'make_taproot_witness_keyspend': [('prvkey', 'skey'), ('sigfields', None), ('committed_script', None), ('script_commitment', None), ('sigflags', None), ('sign_script_prefix', None)],
    'make_taproot_witness_scriptspend': [('pubkey', 'vkey'), ('committed_script', None)],
    'make_nonnative_taproot_lock': [('pubkey', 'vkey'), ('script', None), ('script_commitment', None), ('sigflags', None)],
    'make_graftap_lock': [('pubkey', 'vkey'), ('sigflags', None)],
    'make_graftap_witness_keyspend': [('prvkey', 'skey'), ('sigfields', None), ('sigflags', None), ('sign_script_prefix', None)],
    'make_graftap_witness_scriptspend': [('prvkey', 'skey'), ('surrogate_script', None)],
    'setup_amhl': [('seed', None), ('pubkeys', 'vkeys'), ('sigflags', None), ('refund_pubkeys', None), ('timeout', None)],
    'release_left_amhl_lock': [('adapter_witness', 'script_or_bytes'), ('signature', None), ('y', None)],
    # not listed in docs.md (see above); same annotations in the README examples
    'make_delegate_key_chain_lock': [('root_pubkey', 'vkey'), ('sigflags', None)],
    'make_graftroot_lock': [('pubkey', 'vkey'), ('sigflags', None)],
    'make_graftroot_witness_keyspend': [('prvkey', 'skey'), ('sigfields', None), ('sigflags', None), ('sign_script_prefix', None)],
}
