"""Reference assembler / disassembler over an abstract program (AST).

AST nodes (lists, JSON friendly):
  ['op', NAME, *operands]     operands per isa.KIND[NAME]:
        none: -            u8: int          u8u8: int,int     u8u8u8: int x3
        lv1: bytes         lv2: bytes       lv1u8: bytes,int  f4: bytes(4)
        h32: bytes(32)
  ['push', bytes]             the PUSH pseudo-op: smallest push that fits
  ['nop', code, countbyte]
  ['def', handle, body]       body: list of nodes
  ['if', body] ['ifelse', a, b] ['try', a, b] ['loop', body]
Source-level sugar (assembled to their documented expansion):
  ['hoist', cond, body, else|None]     IF ( cond ) { body } [ELSE { else }]
  ['setvar', name, [bytes..]]          @= name [ vals ]
  ['setvarn', name, count]             @= name count
  ['loadvar', name] ['sizevar', name]  @name   @#name
  ['macro', name, argnames, body_template, [argvals]]   definition + one call
  ['macrocall', name, [argvals]]       a further call of an earlier macro
  ['comptime_push', body]              push ~ { body }
  ['comptime_exec', values]           push ~! { push v1 push v2 .. } -> push <top>
  ['comment', words]                   contributes no bytes
"""
from __future__ import annotations

from . import isa


class AsmError(Exception):
    pass


MACROS: dict = {}      # name -> defining node (reset per program by callers)


def assemble_program(nodes) -> bytes:
    MACROS.clear()
    return assemble(nodes)


def assemble(nodes) -> bytes:
    return b''.join(asm_node(n) for n in nodes)


def _blk(body) -> bytes:
    b = assemble(body)
    if len(b) > 0xffff:
        raise AsmError('block too large')
    return len(b).to_bytes(2, 'big') + b


def asm_node(n) -> bytes:
    t = n[0]
    if t == 'op':
        name = n[1]
        kind = isa.KIND[name]
        c = bytes([isa.CODE[name]])
        a = n[2:]
        if kind == 'none':
            return c
        if kind == 'u8':
            return c + bytes([a[0] & 0xff])
        if kind == 'u8u8':
            return c + bytes([a[0], a[1]])
        if kind == 'u8u8u8':
            return c + bytes([a[0], a[1], a[2]])
        if kind == 'lv1':
            if len(a[0]) > 255:
                raise AsmError('lv1 operand too long')
            return c + bytes([len(a[0])]) + a[0]
        if kind == 'lv2':
            if len(a[0]) > 0xffff:
                raise AsmError('lv2 operand too long')
            return c + len(a[0]).to_bytes(2, 'big') + a[0]
        if kind == 'lv1u8':
            return c + bytes([len(a[0])]) + a[0] + bytes([a[1]])
        if kind in ('f4', 'h32'):
            return c + a[0]
        raise AsmError(kind)
    if t == 'push':
        return isa.push(n[1])
    if t == 'nop':
        return bytes([n[1], n[2]])
    if t == 'def':
        return bytes([isa.CODE['OP_DEF'], n[1]]) + _blk(n[2])
    if t == 'if':
        return bytes([isa.CODE['OP_IF']]) + _blk(n[1])
    if t == 'ifelse':
        return bytes([isa.CODE['OP_IF_ELSE']]) + _blk(n[1]) + _blk(n[2])
    if t == 'try':
        return bytes([isa.CODE['OP_TRY_EXCEPT']]) + _blk(n[1]) + _blk(n[2])
    if t == 'loop':
        return bytes([isa.CODE['OP_LOOP']]) + _blk(n[1])
    if t == 'hoist':
        cond = assemble(n[1])
        if n[3] is None:
            return cond + bytes([isa.CODE['OP_IF']]) + _blk(n[2])
        return cond + bytes([isa.CODE['OP_IF_ELSE']]) + _blk(n[2]) + _blk(n[3])
    if t == 'setvar':
        key = n[1].encode()
        return b''.join(isa.push(v) for v in n[2]) + \
            asm_node(['op', 'OP_WRITE_CACHE', key, len(n[2])])
    if t == 'setvarn':
        return asm_node(['op', 'OP_WRITE_CACHE', n[1].encode(), n[2]])
    if t == 'loadvar':
        return asm_node(['op', 'OP_READ_CACHE', n[1].encode()])
    if t == 'sizevar':
        return asm_node(['op', 'OP_READ_CACHE_SIZE', n[1].encode()])
    if t == 'macro':
        MACROS[n[1]] = n
        return assemble(expand_macro(n))
    if t == 'macrocall':
        # ['macrocall', name, argvals]: another call of a macro defined earlier
        d = MACROS[n[1]]
        return assemble(expand_macro(['macro', d[1], d[2], d[3], n[2]]))
    if t == 'comptime_push':
        return isa.push(assemble(n[1]))
    if t == 'comptime_exec':
        # language_spec: "executes the ops, then pops the top item of the
        # Stack, and replaces the code section with that item"
        return isa.push(n[1][-1])
    if t == 'comment':
        return b''
    raise AsmError(f'unknown node {t}')


def expand_macro(n):
    """['macro', name, argnames, template, argvals]; template nodes may hold
    ['arg', i] placeholders in value positions of push / lv1 / u8 nodes."""
    _, name, argnames, template, argvals = n

    def sub(node):
        out = []
        for x in node:
            if isinstance(x, list) and x and x[0] == 'arg':
                out.append(argvals[x[1]])
            elif isinstance(x, list):
                out.append(sub(x))
            else:
                out.append(x)
        return out
    return [sub(t) for t in template]


# ------------------------------------------------------------- disassembler

class DisasmError(Exception):
    pass


def disassemble(b: bytes):
    """total, forward-only: every read advances; raises DisasmError when an
    operand runs past the end."""
    out = []
    p = 0
    n = len(b)

    def take(k):
        nonlocal p
        if p + k > n:
            raise DisasmError('operand past end')
        v = b[p:p + k]
        p += k
        return v
    while p < n:
        code = take(1)[0]
        if code >= isa.N_OPS:
            out.append(['nop', code, take(1)[0]])
            continue
        name = isa.NAMES[code]
        kind = isa.KIND[name]
        if kind == 'none':
            out.append(['op', name])
        elif kind == 'u8':
            out.append(['op', name, take(1)[0]])
        elif kind == 'u8u8':
            out.append(['op', name, take(1)[0], take(1)[0]])
        elif kind == 'u8u8u8':
            out.append(['op', name, take(1)[0], take(1)[0], take(1)[0]])
        elif kind == 'lv1':
            out.append(['op', name, take(take(1)[0])])
        elif kind == 'lv2':
            out.append(['op', name, take(int.from_bytes(take(2), 'big'))])
        elif kind == 'lv1u8':
            k = take(take(1)[0])
            out.append(['op', name, k, take(1)[0]])
        elif kind == 'f4':
            out.append(['op', name, take(4)])
        elif kind == 'h32':
            out.append(['op', name, take(32)])
        elif kind == 'def':
            h = take(1)[0]
            out.append(['def', h,
                        disassemble(take(int.from_bytes(take(2), 'big')))])
        elif kind == 'blk':
            body = disassemble(take(int.from_bytes(take(2), 'big')))
            out.append(['if' if name == 'OP_IF' else 'loop', body])
        elif kind == 'blk2':
            a = disassemble(take(int.from_bytes(take(2), 'big')))
            c = disassemble(take(int.from_bytes(take(2), 'big')))
            out.append(['ifelse' if name == 'OP_IF_ELSE' else 'try', a, c])
        else:
            raise DisasmError(kind)
    return out


def flatten(nodes, out=None):
    """pre-order sequence of (name, operand values) with block markers"""
    if out is None:
        out = []
    for n in nodes:
        t = n[0]
        if t == 'op':
            out.append((n[1], tuple(n[2:])))
        elif t == 'nop':
            out.append((f'NOP{n[1]}', (n[2],)))
        elif t == 'def':
            out.append(('OP_DEF', (n[1],)))
            out.append(('{', ()))
            flatten(n[2], out)
            out.append(('}', ()))
        elif t in ('if', 'loop'):
            out.append(('OP_IF' if t == 'if' else 'OP_LOOP', ()))
            out.append(('{', ()))
            flatten(n[1], out)
            out.append(('}', ()))
        elif t in ('ifelse', 'try'):
            out.append(('OP_IF_ELSE' if t == 'ifelse' else 'OP_TRY_EXCEPT', ()))
            out.append(('{', ()))
            flatten(n[1], out)
            out.append(('}{', ()))
            flatten(n[2], out)
            out.append(('}', ()))
    return out
