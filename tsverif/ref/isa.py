"""Instruction set transcribed from the headings and operand descriptions of
docs.md ("## OP_NAME - number - xHH"). Imports nothing from tapescript.

Operand format kinds:
  none    no tape operand
  u8      one byte
  u8u8    two bytes (SWAP)
  u8u8u8  three bytes (CHECK_MULTISIG: flags, m, n)
  lv1     [size u8][value]
  lv2     [size u16][value]
  lv1u8   [size u8][key][count u8]           (WRITE_CACHE)
  f4      4-byte float
  h32     32-byte digest                     (MERKLEVAL)
  def     [handle u8][len u16][body]
  blk     [len u16][body]                    (IF, LOOP)
  blk2    [len u16][body][len u16][body]     (IF_ELSE, TRY_EXCEPT)
  nop     one signed count byte              (codes 92..255)
"""
from __future__ import annotations

_TABLE = """
OP_FALSE none
OP_TRUE none
OP_PUSH0 u8
OP_PUSH1 lv1
OP_PUSH2 lv2
OP_GET_MESSAGE u8
OP_POP0 none
OP_POP1 u8
OP_SIZE none
OP_WRITE_CACHE lv1u8
OP_READ_CACHE lv1
OP_READ_CACHE_SIZE lv1
OP_READ_CACHE_STACK none
OP_READ_CACHE_STACK_SIZE none
OP_ADD_INTS u8
OP_SUBTRACT_INTS u8
OP_MULT_INTS u8
OP_DIV_INT lv1
OP_DIV_INTS none
OP_MOD_INT lv1
OP_MOD_INTS none
OP_ADD_FLOATS u8
OP_SUBTRACT_FLOATS u8
OP_DIV_FLOAT f4
OP_DIV_FLOATS none
OP_MOD_FLOAT f4
OP_MOD_FLOATS none
OP_ADD_POINTS u8
OP_COPY u8
OP_DUP none
OP_SHA256 none
OP_SHAKE256 u8
OP_VERIFY none
OP_EQUAL none
OP_EQUAL_VERIFY none
OP_CHECK_SIG u8
OP_CHECK_SIG_VERIFY u8
OP_CHECK_TIMESTAMP none
OP_CHECK_TIMESTAMP_VERIFY none
OP_CHECK_EPOCH none
OP_CHECK_EPOCH_VERIFY none
OP_DEF def
OP_CALL u8
OP_IF blk
OP_IF_ELSE blk2
OP_EVAL none
OP_NOT none
OP_RANDOM none
OP_RETURN none
OP_SET_FLAG lv1
OP_UNSET_FLAG lv1
OP_DEPTH none
OP_SWAP u8u8
OP_SWAP2 none
OP_REVERSE u8
OP_CONCAT none
OP_SPLIT none
OP_CONCAT_STR none
OP_SPLIT_STR none
OP_CHECK_TRANSFER none
OP_MERKLEVAL h32
OP_TRY_EXCEPT blk2
OP_LESS none
OP_LESS_OR_EQUAL none
OP_GET_VALUE lv1
OP_FLOAT_LESS none
OP_FLOAT_LESS_OR_EQUAL none
OP_INT_TO_FLOAT none
OP_FLOAT_TO_INT none
OP_LOOP blk
OP_CHECK_MULTISIG u8u8u8
OP_CHECK_MULTISIG_VERIFY u8u8u8
OP_SIGN u8
OP_SIGN_STACK none
OP_CHECK_SIG_STACK none
OP_DERIVE_SCALAR none
OP_CLAMP_SCALAR u8
OP_ADD_SCALARS u8
OP_SUBTRACT_SCALARS u8
OP_DERIVE_POINT none
OP_SUBTRACT_POINTS u8
OP_MAKE_ADAPTER_SIG_PUBLIC none
OP_MAKE_ADAPTER_SIG_PRIVATE none
OP_CHECK_ADAPTER_SIG none
OP_DECRYPT_ADAPTER_SIG none
OP_INVOKE none
OP_XOR none
OP_OR none
OP_AND none
OP_CHECK_TEMPLATE u8
OP_CHECK_TEMPLATE_VERIFY u8
OP_TAPROOT u8
"""

NAMES: list[str] = []
KIND: dict[str, str] = {}
for _line in _TABLE.strip().splitlines():
    _n, _k = _line.split()
    NAMES.append(_n)
    KIND[_n] = _k
CODE: dict[str, int] = {n: i for i, n in enumerate(NAMES)}
N_OPS = len(NAMES)            # 92
assert N_OPS == 92
NOP_CODES = range(N_OPS, 256)

# short aliases documented in docs.md ("Aliases:" lines) / language_spec.md
ALIASES = {
    'OP_READ_CACHE_SIZE': ['RCZ'], 'OP_READ_CACHE_STACK': ['RCS'],
    'OP_READ_CACHE_STACK_SIZE': ['RCSZ'], 'OP_ADD_INTS': ['ADD'],
    'OP_SUBTRACT_INTS': ['SUB'], 'OP_MULT_INTS': ['MULT'],
    'OP_DIV_INTS': ['DIV'], 'OP_MOD_INTS': ['MOD'],
    'OP_SUBTRACT_FLOATS': ['SUBF'], 'OP_MOD_FLOAT': ['MODF'],
    'OP_MOD_FLOATS': ['MODFS'], 'OP_EQUAL': ['EQ'],
    'OP_EQUAL_VERIFY': ['EQV'], 'OP_LESS_OR_EQUAL': ['LEQ'],
    'OP_GET_VALUE': ['VAL'], 'OP_FLOAT_LESS': ['FLESS'],
    'OP_FLOAT_LESS_OR_EQUAL': ['FLEQ'], 'OP_INT_TO_FLOAT': ['I2F'],
    'OP_FLOAT_TO_INT': ['F2I'], 'OP_CHECK_TIMESTAMP': ['CTS'],
    'OP_CHECK_TIMESTAMP_VERIFY': ['CTSV'], 'OP_CHECK_EPOCH_VERIFY': ['CEV'],
    'OP_CHECK_SIG': ['CS'], 'OP_CHECK_SIG_VERIFY': ['CSV'],
    'OP_CHECK_MULTISIG': ['CMS'], 'OP_CHECK_MULTISIG_VERIFY': ['CMSV'],
    'OP_CHECK_SIG_STACK': ['CSS'], 'OP_MAKE_ADAPTER_SIG_PUBLIC': ['MASU'],
    'OP_MAKE_ADAPTER_SIG_PRIVATE': ['MASV'], 'OP_CHECK_ADAPTER_SIG': ['CAS'],
    'OP_DECRYPT_ADAPTER_SIG': ['DAS'], 'OP_GET_MESSAGE': ['MSG'],
    'OP_CONCAT': ['CAT'], 'OP_CONCAT_STR': ['CATS'],
    'OP_CHECK_TEMPLATE': ['CT'], 'OP_CHECK_TEMPLATE_VERIFY': ['CTV'],
    'OP_TAPROOT': ['TR'],
}


def op(name: str) -> bytes:
    return bytes([CODE[name if name.startswith('OP_') else 'OP_' + name]])


def push(b: bytes) -> bytes:
    """smallest push that fits (the rule `PUSH` is documented to follow)."""
    if len(b) == 1:
        return b'\x02' + b
    if len(b) < 256:
        return b'\x03' + bytes([len(b)]) + b
    if len(b) < 65536:
        return b'\x04' + len(b).to_bytes(2, 'big') + b
    raise ValueError('item too large to push')


def push1(b: bytes) -> bytes:
    return b'\x03' + bytes([len(b)]) + b


def int_enc(n: int) -> bytes:
    ln = (n.bit_length() if n >= 0 else (~n).bit_length()) // 8 + 1
    return n.to_bytes(ln, 'big', signed=True)


def int_dec(b: bytes) -> int:
    return int.from_bytes(b, 'big', signed=True)


def blk(body: bytes) -> bytes:
    return len(body).to_bytes(2, 'big') + body


def IF(body: bytes) -> bytes:
    return op('IF') + blk(body)


def IF_ELSE(a: bytes, b: bytes) -> bytes:
    return op('IF_ELSE') + blk(a) + blk(b)


def TRY(a: bytes, b: bytes = b'') -> bytes:
    return op('TRY_EXCEPT') + blk(a) + blk(b)


def LOOP(body: bytes) -> bytes:
    return op('LOOP') + blk(body)


def DEF(handle: int, body: bytes) -> bytes:
    return op('DEF') + bytes([handle]) + blk(body)


def CALL(handle: int) -> bytes:
    return op('CALL') + bytes([handle])
