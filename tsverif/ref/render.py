"""AST -> source text under a spelling profile (language_spec.md syntax).

The renderer only emits spellings the documents define: OP_ prefix / bare name /
documented short alias; any letter case for names; {} or END_* terminators;
hoisted IF ( .. ); d / x / s / f value prefixes; comments between # or " or '
symbols; @= / @name / @#name sugar; macros; comptime ~ { }.
It records which features a rendering used (for violation classification).
"""
from __future__ import annotations
import struct

from . import isa

CANON = {
    'alias': 0.0, 'bare': 0.0, 'lower': 0.0, 'mixed': 0.0, 'end_terms': 0.0,
    'hoist': 1.0, 'comment': 0.0, 'dval': 0.0, 'sval': 0.0, 'fval': 0.0,
    'explicit_push': 0.0, 'neg_d': 0.0, 'upper_prefix': 0.0, 'upper_hex': 0.0,
    'ws': 0.0, 'size_sym': 0.5, 'plain_def_handle': 0.5, 'multispace': 0.0,
    'upper_s': 0.0,
}
WILD = {
    'alias': 0.4, 'bare': 0.5, 'lower': 0.5, 'mixed': 0.1, 'end_terms': 0.35,
    'hoist': 1.0, 'comment': 0.12, 'dval': 0.45, 'sval': 0.5, 'fval': 0.5,
    'explicit_push': 0.3, 'neg_d': 0.25, 'upper_prefix': 0.08,
    'upper_hex': 0.3, 'ws': 0.5, 'size_sym': 0.5, 'plain_def_handle': 0.5,
    'multispace': 0.02, 'upper_s': 0.01,
}

COMMENT_WORDS = ['note', 'todo', 'check', 'the', 'value', 'here', 'alpha',
                 'beta', '42', 'because', 'op_dup', 'push', 'true', 'if',
                 'x0a', 'd5', 'verify']


class Renderer:
    def __init__(self, rng, profile) -> None:
        self.rng = rng
        self.p = profile
        self.features: set[str] = set()
        self.toks: list[str] = []
        self.ws_choice: dict = {}

    def chance(self, k) -> bool:
        return self.rng.random() < self.p.get(k, 0.0)

    # ------------------------------------------------------------ names
    def name(self, opname: str) -> str:
        """opname like OP_DUP (or a keyword like ELSE / END_IF)."""
        s = opname
        if opname.startswith('OP_'):
            if opname in isa.ALIASES and self.chance('alias'):
                s = self.rng.choice(isa.ALIASES[opname])
                self.features.add('alias')
                if self.rng.random() < 0.5:
                    s = 'OP_' + s
                    self.features.add('op_alias')
            elif self.chance('bare'):
                s = opname[3:]
                self.features.add('bare')
        return self.case(s)

    def case(self, s: str) -> str:
        if self.chance('lower'):
            self.features.add('lower')
            return s.lower()
        if self.chance('mixed'):
            self.features.add('mixedcase')
            return ''.join(c.lower() if self.rng.random() < 0.5 else c.upper()
                           for c in s)
        return s

    # ------------------------------------------------------------ values
    def hexv(self, b: bytes) -> str:
        h = b.hex()
        if self.chance('upper_hex') and any(c in 'abcdef' for c in h):
            h = h.upper()
            self.features.add('upper_hex')
        p = 'x'
        if self.chance('upper_prefix'):
            p = 'X'
            self.features.add('upper_prefix')
        return p + h

    def strv(self, b: bytes):
        """s"..." spelling if the bytes are a safe printable string."""
        try:
            s = b.decode('utf-8')
        except UnicodeDecodeError:
            return None
        if not s or s.encode('utf-8') != b:
            return None
        if any(ord(c) < 0x20 or ord(c) == 0x7f for c in s):
            return None
        if any(c.isspace() and c != ' ' for c in s):
            return None
        if '  ' in s:
            # one decision per value and rendering: every occurrence of the
            # value is spelled the same way (the known-finding classifier
            # relies on knowing exactly which values went through s"...")
            if b not in self.ws_choice:
                self.ws_choice[b] = self.chance('multispace')
            if not self.ws_choice[b]:
                return None
            self.features.add('string-multispace')
            self.features.add('ws-value:' + b.hex())
        q = '"' if "'" in s or self.rng.random() < 0.6 else "'"
        if q in s:
            q = "'" if q == '"' else '"'
            if q in s:
                return None
        p = 's'
        if self.chance('upper_s'):
            p = 'S'
            self.features.add('upper_s_prefix')
        self.features.add('sval')
        return f'{p}{q}{s}{q}'

    def intv(self, b: bytes, allow_neg=True, plus_ok=False):
        """d<int> spelling if b is the minimal encoding of a moderate int."""
        # (values beyond 2^53, where a detour through a float would round,
        # are spelled in decimal too)
        if not b or len(b) > 40:
            return None
        n = isa.int_dec(b)
        if isa.int_enc(n) != b:
            return None
        if n < 0 and not allow_neg:
            return None
        self.features.add('dval')
        p = 'd'
        if self.chance('upper_prefix'):
            p = 'D'
            self.features.add('upper_prefix')
        return f'{p}{n}'

    def value(self, b: bytes, kinds='xds') -> str:
        """one value symbol for arbitrary bytes."""
        if 's' in kinds and self.chance('sval'):
            s = self.strv(b)
            if s is not None:
                return s
        if 'd' in kinds and self.chance('dval'):
            s = self.intv(b)
            if s is not None:
                return s
        if 'f' in kinds and len(b) == 4 and self.chance('fval'):
            s = self.floatv(b, dot_ok=True)
            if s is not None:
                return s
        return self.hexv(b)

    def floatv(self, b: bytes, dot_ok: bool):
        x = struct.unpack('>f', b)[0]
        if x != x or x in (float('inf'), float('-inf')):
            return None
        if x == int(x) and abs(x) < 1e15:
            txt = str(int(x))
            if x == 0 and b != bytes(4):
                return None              # -0.0
        elif dot_ok:
            txt = repr(x)
            if 'e' in txt or 'E' in txt:
                return None
        else:
            return None
        if struct.pack('>f', float(txt)) != b:
            return None
        self.features.add('fval')
        return 'f' + txt

    def byte(self, v: int, signed_ok=True, numeric_only=False) -> str:
        """one-byte operand"""
        t = self._byte(v, signed_ok, numeric_only)
        # "any letter case" holds for the value prefix of every operand kind
        if self.chance('upper_prefix'):
            self.features.add('upper_prefix')
            t = t[0].upper() + t[1:]
        return t

    def _byte(self, v: int, signed_ok=True, numeric_only=False) -> str:
        if self.chance('dval') or (v < 128 and self.rng.random() < 0.5):
            if v < 128:
                self.features.add('dbyte')
                return f'd{v}'
            if numeric_only:
                # SWAP / CHECK_MULTISIG accept d0..d255
                self.features.add('dbyte')
                return f'd{v}'
            if signed_ok and self.chance('neg_d'):
                self.features.add('neg_dbyte')
                return f'd{v - 256}'
        h = f'{v:02x}'
        if self.chance('upper_hex'):
            h = h.upper()
        return 'x' + h

    # ------------------------------------------------------------ emit
    def emit(self, *t) -> None:
        self.toks.extend(t)

    def comment(self) -> None:
        if not self.chance('comment'):
            return
        d = self.rng.choice(['#', '#', '"', "'"])
        words = [self.rng.choice(COMMENT_WORDS)
                 for _ in range(self.rng.randrange(0, 4))]
        # a comment runs to the next occurrence of ITS OWN delimiter: the
        # other two delimiters may stand inside it as words
        if self.rng.random() < 0.3:
            other = [x for x in ('#', '"', "'") if x != d]
            words.insert(self.rng.randrange(len(words) + 1),
                         self.rng.choice(other))
            self.features.add('comment-holds-other-delimiter')
        self.features.add('comment' + d)
        self.emit(d, *words, d)

    def block(self, nodes, in_def=False) -> None:
        for n in nodes:
            self.comment()
            self.node(n, in_def)
        self.comment()

    def node(self, n, in_def=False) -> None:
        t = n[0]
        r = self.rng
        if t == 'op':
            self.op(n)
        elif t == 'push':
            b = n[1]
            if self.chance('explicit_push') and len(b) >= 1:
                self.features.add('explicit_push')
                if len(b) == 1:
                    self.emit(self.name('OP_PUSH0'),
                              self.byte(b[0]) if r.random() < 0.5
                              else self.hexv(b))
                elif len(b) < 256:
                    self.lv_push('OP_PUSH1', b)
                else:
                    self.lv_push('OP_PUSH2', b)
            else:
                self.emit(self.case('OP_PUSH' if not self.chance('bare')
                                    else 'PUSH'), self.value(b, 'xds'))
        elif t == 'nop':
            v = n[2]
            self.emit(self.case(f'NOP{n[1]}'), self.byte(v))
        elif t == 'def':
            h = n[1]
            if self.chance('plain_def_handle'):
                hs = str(h)
            else:
                hs = f'd{h}' if r.random() < 0.5 else f'x{h:02x}'
            kw = self.case('OP_DEF' if not self.chance('bare') else 'DEF')
            if self.chance('end_terms'):
                self.features.add('end_def')
                self.emit(kw, hs)
                self.block(n[2], True)
                self.emit(self.case('END_DEF'))
            else:
                self.emit(kw, hs, '{')
                self.block(n[2], True)
                self.emit('}')
        elif t == 'if':
            self.cond(None, n[1], None)
        elif t == 'ifelse':
            self.cond(None, n[1], n[2])
        elif t == 'hoist':
            self.features.add('hoist')
            self.cond(n[1], n[2], n[3])
        elif t == 'try':
            kw = self.case('OP_TRY' if not self.chance('bare') else 'TRY')
            amb = n[1] and n[1][-1][0] == 'try'
            if not amb and self.chance('end_terms') and n[2]:
                self.features.add('end_except')
                self.emit(kw)
                self.block(n[1])
                self.emit(self.case('EXCEPT'))
                self.block(n[2])
                self.emit(self.case('END_EXCEPT'))
            else:
                self.emit(kw, '{')
                self.block(n[1])
                if n[2] or r.random() < 0.5:
                    self.emit('}', self.case('EXCEPT'), '{')
                    self.block(n[2])
                self.emit('}')
        elif t == 'loop':
            kw = self.case('OP_LOOP' if not self.chance('bare') else 'LOOP')
            if self.chance('end_terms'):
                self.features.add('end_loop')
                self.emit(kw)
                self.block(n[1])
                self.emit(self.case('END_LOOP'))
            else:
                self.emit(kw, '{')
                self.block(n[1])
                self.emit('}')
        elif t == 'setvar':
            self.features.add('setvar')
            self.emit('@=', n[1], '[',
                      *[self.value(v, 'xds') for v in n[2]], ']')
        elif t == 'setvarn':
            self.features.add('setvarn')
            self.emit('@=', n[1], str(n[2]))
        elif t == 'loadvar':
            self.features.add('loadvar')
            self.emit('@' + n[1])
        elif t == 'sizevar':
            self.features.add('sizevar')
            self.emit('@#' + n[1])
        elif t == 'macro':
            self.features.add('macro')
            _, name, argnames, template, argvals = n
            self.emit('!=', name, '[', *argnames, ']', '{')
            sub = Renderer(self.rng, dict(self.p, comment=0.0))
            sub.ws_choice = self.ws_choice
            sub.argnames = argnames
            sub.block(template)
            self.features |= sub.features
            self.emit(*sub.toks, '}')
            self.comment()
            vals = []
            for v in argvals:
                vals.append(self.byte(v) if isinstance(v, int)
                            else self.hexv(v))
            self.emit('!' + name, '[', *vals, ']')
        elif t == 'macrocall':
            self.features.add('macro-called-again')
            vals = [self.byte(v) if isinstance(v, int) else self.hexv(v)
                    for v in n[2]]
            self.emit('!' + n[1], '[', *vals, ']')
        elif t == 'comptime_push':
            self.features.add('comptime')
            self.emit(self.case('OP_PUSH' if not self.chance('bare')
                                else 'PUSH'), '~', '{')
            self.block(n[1])
            self.emit('}')
        elif t == 'comptime_exec':
            self.features.add('comptime-exec')
            self.emit(self.case('OP_PUSH' if not self.chance('bare')
                                else 'PUSH'), '~!', '{')
            self.block([['push', v] for v in n[1]])
            self.emit('}')
        elif t == 'comment':
            d = '#'
            self.emit(d, *n[1], d)
        else:
            raise ValueError(t)

    argnames: list = []

    def argref(self, x):
        return self.argnames[x[1]]

    def cond(self, hoisted, body, els) -> None:
        kw = self.case('OP_IF' if not self.chance('bare') else 'IF')
        self.emit(kw)
        if hoisted is not None:
            self.emit('(')
            self.block(hoisted)
            self.emit(')')
        # dangling-else: an END_-form IF..ELSE whose then-body ends in a
        # brace-form IF without ELSE is ambiguous in the documented grammar
        # (`} ELSE` binds to the inner IF) -> never rendered
        amb = els is not None and body and body[-1][0] in ('if', 'hoist') \
            and (body[-1][0] == 'if' or body[-1][3] is None)
        if not amb and self.chance('end_terms'):
            self.features.add('end_if')
            self.block(body)
            if els is not None:
                self.emit(self.case('ELSE'))
                self.block(els)
            self.emit(self.case('END_IF'))
        else:
            self.emit('{')
            self.block(body)
            if els is not None:
                self.emit('}', self.case('ELSE'), '{')
                self.block(els)
            self.emit('}')

    def lv_push(self, opname, b) -> None:
        nm = self.name(opname)
        if self.chance('size_sym'):
            self.features.add('push_size_symbol')
            self.emit(nm, f'd{len(b)}', self.value(b, 'xds'))
        else:
            self.features.add('push_no_size_symbol')
            self.emit(nm, self.value(b, 'xds'))

    def op(self, n) -> None:
        name = n[1]
        kind = isa.KIND[name]
        a = n[2:]
        if any(isinstance(x, list) and x and x[0] == 'arg' for x in a):
            # macro template placeholder in operand position
            self.emit(self.name(name), *[self.argref(x) for x in a])
            return
        nm = self.name(name)
        if kind == 'none':
            self.emit(nm)
        elif kind == 'u8':
            if name == 'OP_PUSH0':
                self.emit(nm, self.byte(a[0]))
            else:
                self.emit(nm, self.byte(a[0]))
        elif kind == 'u8u8':
            self.emit(nm, self.byte(a[0], numeric_only=True),
                      self.byte(a[1], numeric_only=True))
        elif kind == 'u8u8u8':
            self.emit(nm, self.byte(a[0], numeric_only=True),
                      self.byte(a[1], numeric_only=True),
                      self.byte(a[2], numeric_only=True))
        elif kind == 'lv1':
            if name == 'OP_PUSH1':
                if self.chance('size_sym'):
                    self.features.add('push_size_symbol')
                    self.emit(nm, f'd{len(a[0])}', self.value(a[0], 'xdsf'))
                else:
                    self.features.add('push_no_size_symbol')
                    self.emit(nm, self.value(a[0], 'xdsf'))
            elif name in ('OP_DIV_INT', 'OP_MOD_INT'):
                self.emit(nm, self.value(a[0], 'xd'))
            else:
                # cache keys / flags / value names: x or s; d only 0..127
                v = None
                if len(a[0]) == 1 and a[0][0] < 128 and self.chance('dval'):
                    v = f'd{a[0][0]}'
                    self.features.add('dkey')
                self.emit(nm, v or self.value(a[0], 'xs'))
        elif kind == 'lv2':
            self.lv_push('OP_PUSH2', a[0])
        elif kind == 'lv1u8':
            v = None
            if len(a[0]) == 1 and a[0][0] < 128 and self.chance('dval'):
                v = f'd{a[0][0]}'
            self.emit(nm, v or self.value(a[0], 'xs'),
                      self.byte(a[1], signed_ok=False, numeric_only=True))
        elif kind == 'f4':
            s = None
            if self.chance('fval'):
                s = self.floatv(a[0], dot_ok=False)
            self.emit(nm, s or ('x' + a[0].hex()))
        elif kind == 'h32':
            self.emit(nm, self.hexv(a[0]))
        else:
            raise ValueError(kind)

    def text(self) -> str:
        if not self.chance('ws'):
            return ' '.join(self.toks)
        self.features.add('mixed_whitespace')
        out = []
        for t in self.toks:
            out.append(t)
            out.append(self.rng.choice([' ', '\n', '\t', '  ', '\n    ',
                                        ' \n']))
        return ''.join(out)


def render(nodes, rng, profile):
    r = Renderer(rng, profile)
    r.block(nodes)
    return r.text(), r.features
