"""Message model of C02 and fast/slow Ed25519 oracles.

message(cache, flag): concatenation in index order of the present sigfield1..8
whose bit is clear in `flag`.

Signature validity is decided by libsodium called *directly* (not through
tapescript) as the fast primitive, and by the pure-Python RFC 8032 reference on
a deterministic sample; a disagreement between the two references is reported
by the caller as reference-disagreement (inconclusive), never as a violation.
"""
from __future__ import annotations
import nacl.bindings as nb
import nacl.exceptions

from . import ed25519 as E


def message(cache: dict, flag: int) -> bytes:
    out = b''
    for i in range(1, 9):
        k = f'sigfield{i}'
        if k in cache and not (flag >> (i - 1)) & 1:
            out += cache[k]
    return out


def covered(cache: dict, flag: int):
    return [i for i in range(1, 9)
            if f'sigfield{i}' in cache and not (flag >> (i - 1)) & 1]


def pubkey(seed: bytes) -> bytes:
    return nb.crypto_sign_seed_keypair(seed)[0]


def sign(seed: bytes, msg: bytes) -> bytes:
    pk, sk = nb.crypto_sign_seed_keypair(seed)
    return nb.crypto_sign(msg, sk)[:64]


def valid_fast(pk: bytes, msg: bytes, sig64: bytes) -> bool:
    if len(pk) != 32 or len(sig64) != 64:
        return False
    try:
        nb.crypto_sign_open(sig64 + msg, pk)
        return True
    except nacl.exceptions.BadSignatureError:
        return False
    except Exception:
        return False


def valid_slow(pk: bytes, msg: bytes, sig64: bytes) -> bool:
    return E.verify(pk, msg, sig64)
