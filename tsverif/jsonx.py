"""JSON with bytes ({"$b": hex}), tuples (as lists) and non-str dict keys
({"$d": [[k, v], ...]}) so that cases can be written to replay files and read
back bit-for-bit."""
from __future__ import annotations
import json


def enc(o):
    if isinstance(o, (bytes, bytearray)):
        return {'$b': bytes(o).hex()}
    if isinstance(o, dict):
        if all(type(k) is str for k in o):
            return {k: enc(v) for k, v in o.items()}
        return {'$d': [[enc(k), enc(v)] for k, v in o.items()]}
    if isinstance(o, (list, tuple)):
        return [enc(x) for x in o]
    if isinstance(o, (set, frozenset)):
        return [enc(x) for x in sorted(o, key=repr)]
    if isinstance(o, float):
        if o != o or o in (float('inf'), float('-inf')):
            return {'$f': repr(o)}
        return o
    if o is None or isinstance(o, (str, int, bool)):
        return o
    return {'$repr': repr(o)}


def dec(o):
    if isinstance(o, dict):
        if len(o) == 1:
            if '$b' in o:
                return bytes.fromhex(o['$b'])
            if '$d' in o:
                return {_hashable(dec(k)): dec(v) for k, v in o['$d']}
            if '$f' in o:
                return float(o['$f'])
        return {k: dec(v) for k, v in o.items()}
    if isinstance(o, list):
        return [dec(x) for x in o]
    return o


def _hashable(k):
    return tuple(k) if isinstance(k, list) else k


def dumps(o, **kw) -> str:
    return json.dumps(enc(o), **kw)


def loads(s: str):
    return dec(json.loads(s))


def dump_file(o, path: str, **kw) -> None:
    with open(path, 'w') as f:
        f.write(dumps(o, **kw))


def load_file(path: str):
    with open(path) as f:
        return loads(f.read())
