"""Bootstrap: import tapescript live from the working tree with the clock and
the entropy source pinned *before* the package is imported.

Nothing in here depends on VM semantics: the pin canary is an identity check of
the names the VM bound (`functions.time`, `functions.token_bytes`), so a change
to an instruction can never turn a run inconclusive.
"""
from __future__ import annotations
import hashlib
import os
import sys

sys.dont_write_bytecode = True

REPO = os.path.realpath(os.environ.get('TAPESCRIPT_REPO', '/repo'))
GUARD = 'TAPESCRIPT_VERIF'

NOW0 = 1_700_000_000


class Clock:
    """The verifier clock every `time()` call inside tapescript sees."""
    now: int = NOW0
    calls: int = 0


def fake_time() -> int:
    Clock.calls += 1
    return Clock.now      # an int: exact at any magnitude (int(time()) is applied by callers)


ENTROPY_CAP = 1 << 24


class Entropy:
    key: bytes = b'tsverif-entropy'
    counter: int = 0
    log: list = []          # every size requested, in order

    @classmethod
    def reset(cls, key: bytes = b'tsverif-entropy') -> None:
        cls.key = key
        cls.counter = 0
        cls.log = []

    @classmethod
    def peek_stream(cls, key: bytes, counter: int, n: int) -> bytes:
        return hashlib.shake_256(
            key + counter.to_bytes(8, 'big')).digest(n)


def fake_token_bytes(nbytes=None) -> bytes:
    if nbytes is None:
        nbytes = 32
    Entropy.log.append(nbytes)
    if nbytes < 0:
        raise ValueError('negative argument not allowed')
    if nbytes > ENTROPY_CAP:
        # the request is already logged (C07 judges it); do not allocate it
        raise OverflowError('entropy request above the verification cap')
    out = Entropy.peek_stream(Entropy.key, Entropy.counter, nbytes)
    Entropy.counter += 1
    return out


_ts = None


class BootstrapError(Exception):
    pass


def bootstrap():
    """Pin clock + entropy, import tapescript from REPO, verify the pins."""
    global _ts
    if _ts is not None:
        return _ts
    os.environ[GUARD] = '1'
    import time as _time
    import secrets as _secrets
    _time.time = fake_time
    _secrets.token_bytes = fake_token_bytes
    if 'tapescript' in sys.modules:
        raise BootstrapError('tapescript imported before the pins')
    sys.path.insert(0, REPO)
    import warnings
    warnings.simplefilter('ignore')
    import tapescript
    here = os.path.realpath(tapescript.__file__)
    if not here.startswith(REPO + os.sep):
        raise BootstrapError(f'tapescript imported from {here}, not {REPO}')
    from tapescript import functions, tools
    if functions.time is not fake_time or tools.time is not fake_time:
        raise BootstrapError('clock pin not effective')
    if functions.token_bytes is not fake_token_bytes:
        raise BootstrapError('entropy pin not effective')
    _ts = tapescript
    return tapescript


BUILDER_PROXY = False      # set by the worker for checks with BUILDER_DEFAULTS
_proxy = None


def real_tools():
    bootstrap()
    from tapescript import tools
    return tools


def mods():
    """(functions, parsing, tools, classes, errors) of the live package; for
    checks that opt in, `tools` is the builder-default monitor's proxy."""
    global _proxy
    bootstrap()
    from tapescript import functions, parsing, tools, classes, errors
    if BUILDER_PROXY:
        if _proxy is None:
            from . import omit
            _proxy = omit.ToolsProxy(tools)
        return functions, parsing, _proxy, classes, errors
    return functions, parsing, tools, classes, errors


# Roomy but NON-DEFAULT limit triples (stack_max_items, stack_max_item_size,
# callstack_limit): every script the signature / builder checks run needs far
# fewer than 64 items, items of at most ~1000 bytes and fewer than 128 calls,
# so verdicts must be the same under each of them. Chosen by a hash of the
# scripts, so that a replay takes the same triple.
ROOMY_LIMITS = ((1024, 1024, 128), (64, 1024, 128), (1024, 2048, 128),
                (300, 1100, 300), (2000, 1024, 500), (96, 4096, 128))


def roomy_limits(*blobs) -> dict:
    h = hashlib.blake2b(digest_size=2)
    for b in blobs:
        h.update(bytes(b))
    mi, ms, lim = ROOMY_LIMITS[h.digest()[0] % len(ROOMY_LIMITS)]
    return {'stack_max_items': mi, 'stack_max_item_size': ms,
            'callstack_limit': lim}


class global_flags:
    """`functions.flags[k] = v` for the duration of the block: the documented
    process-wide way to configure the VM (docs.md, "Flags")"""

    def __init__(self, vals) -> None:
        self.vals = dict(vals or {})

    def __enter__(self):
        fl = mods()[0].flags
        self.saved = {k: fl[k] for k in self.vals if k in fl}
        self.added = [k for k in self.vals if k not in fl]
        fl.update(self.vals)
        return self

    def __exit__(self, *a):
        fl = mods()[0].flags
        fl.update(self.saved)
        for k in self.added:
            fl.pop(k, None)
        return False


# every register export switched off (a verifier that does not want secrets
# and intermediate values copied into the cache)
REGISTERS_OFF = {k: False for k in range(1, 10)}


def rewriting_extension(tape, stack, cache):
    """an embedder signature extension: replaces sigfield1 by a digest of it
    (not idempotent - the VM runs extensions exactly once per signature-related
    instruction)"""
    cache['sigfield1'] = hashlib.sha256(
        b'ext' + bytes(cache.get('sigfield1', b''))).digest()[:11]
