"""Program generator for the differential VM check (C06): well-typed programs
from a stack-aware grammar over the full opcode table with nesting, mutations
of them into ill-typed programs, and raw opcode-biased bytes. Operands are
boundary-biased."""
from __future__ import annotations
import hashlib
import struct

import nacl.bindings as nb

from ..ref import isa, sigmsg

O = isa.op
L = 2**252 + 27742317777372353535851937790883648493

SEEDS = [bytes([i]) * 32 for i in (1, 2, 3)] + [bytes(range(32))]
PKS = [sigmsg.pubkey(s) for s in SEEDS]
SCALARS = [(n % L).to_bytes(32, 'little') for n in
           (1, 2, 7, L - 1, 2**251 + 12345, 987654321987654321)]
POINTS = [nb.crypto_scalarmult_ed25519_base_noclamp(s) for s in SCALARS]
BAD_POINTS = [bytes(32), b'\x01' + bytes(31), b'\xff' * 32, b'\x02' * 32]
CID = b'\xc6' * 4
TID = b'\x7c' * 4
FIELDS = {'sigfield1': b'alpha', 'sigfield2': b'', 'sigfield3': b'gamma-3',
          'sigfield5': bytes(range(40)), 'sigfield8': b'\xff\x00'}
KEYS = [b'k', b'q', b'P', b'E', b'x', b'', b'raw', b'lst', b'emb', b'long-key-'
        + b'z' * 20]
NAMES = [b'timestamp', b'sigfield1', b'sigfield3', b'vint', b'vstr', b'vflt',
         b'vlist', b'vnone', b'missing', b'vbytes', b'vbig', b'\xff\xfe']


def rbytes(rng, n):
    return bytes(rng.getrandbits(8) for _ in range(n))


def g_int(rng):
    r = rng.random()
    if r < 0.5:
        n = rng.choice((0, 1, -1, 2, 3, 5, 7, 10, 127, 128, -128, -129, 255,
                        256, 32767, -32768, 65535, 65536, 2**31 - 1, -2**31,
                        2**63, -2**63 - 1, 10**18))
    elif r < 0.8:
        n = rng.randrange(-1000, 1000)
    elif r < 0.95:
        n = rng.getrandbits(rng.choice((16, 64, 128, 512))) - \
            (1 << rng.choice((15, 63, 127)))
    else:
        n = (1 << rng.choice((1000, 2040, 4000))) + rng.randrange(-3, 4)
    enc = isa.int_enc(n)
    if rng.random() < 0.07:
        enc = (b'\xff' if n < 0 else b'\x00') * rng.randrange(1, 3) + enc
    return enc


def g_small(rng):
    return isa.int_enc(rng.choice((0, 1, 2, 3, 4, 5, 8, -1)))


def g_float(rng):
    r = rng.random()
    if r < 0.6:
        x = rng.choice((0.0, 1.0, -1.0, 2.0, 0.5, -0.5, 3.0, 7.25, 100.0,
                        -100.0, 1e10, 1e-10, 16777216.0, 3.4028234663852886e38,
                        1.401298464324817e-45))
        return struct.pack('>f', x)
    if r < 0.7:
        return rng.choice((b'\x7f\x80\x00\x00', b'\xff\x80\x00\x00',
                           b'\x7f\xc0\x00\x00', b'\x80\x00\x00\x00',
                           b'\x00\x00\x00\x01'))
    return struct.pack('>f', struct.unpack('>f', struct.pack(
        '>f', rng.uniform(-1000, 1000)))[0])


def g_bytes(rng):
    r = rng.random()
    if r < 0.1:
        return b''
    if r < 0.5:
        return rbytes(rng, rng.choice((1, 1, 2, 3, 4, 8)))
    if r < 0.7:
        return rng.choice((b'\x00', b'\xff', b'\x00\x00', b'\x80', b'\x7f',
                           b'hello', b'caf\xc3\xa9', b'\xff\xfe'))
    return rbytes(rng, rng.choice((16, 31, 32, 33, 64, 100, 255, 256, 600)))


def g_str(rng):
    return rng.choice((b'', b'a', b'hello', 'café'.encode(),
                       '你好 world'.encode(), b'abc def',
                       '\U0001f600x'.encode(), b'\xff\xfe'))


def g_bool(rng):
    return rng.choice((b'\xff', b'\x00', b'\x01', b'\x00\x00', b'', b'\x00\x01'))


def g_true(rng):
    return rng.choice((b'\xff', b'\x01', b'\x00\x01', b'\x80')) \
        if rng.random() < 0.85 else g_bool(rng)


def make_adapter(rng, seed, m, T):
    """a valid adapter (R, sa) for (seed, m, T) built from the formulas"""
    h = bytearray(hashlib.sha512(seed).digest()[:32])
    h[0] &= 248
    h[31] &= 127
    h[31] |= 64
    x = int.from_bytes(h, 'little')
    X = nb.crypto_scalarmult_ed25519_base_noclamp(bytes(h))
    r = int.from_bytes(rbytes(rng, 40), 'little') % L or 1
    R = nb.crypto_scalarmult_ed25519_base_noclamp(r.to_bytes(32, 'little'))
    RT = nb.crypto_core_ed25519_add(R, T)
    ca = int.from_bytes(hashlib.sha512(RT + X + m).digest(), 'little') % L
    sa = (r + ca * x) % L
    return X, R, sa.to_bytes(32, 'little')


def g_seed(rng):
    return rng.choice(SEEDS) if rng.random() < 0.9 else rbytes(rng, 31)


def g_point(rng):
    r = rng.random()
    if r < 0.85:
        return rng.choice(POINTS + PKS)
    if r < 0.95:
        return rng.choice(BAD_POINTS)
    return rbytes(rng, rng.choice((31, 33)))


def g_scalar(rng):
    r = rng.random()
    if r < 0.8:
        return rng.choice(SCALARS)
    if r < 0.9:
        return rbytes(rng, 32)
    return rng.choice((bytes(32), L.to_bytes(32, 'little'),
                       (L + 1).to_bytes(32, 'little'), b'\xff' * 32))


def P(*items):
    return b''.join(isa.push(x) if len(x) else b'\x03\x00' for x in items)


def sig_for(seed, flag, fields=FIELDS):
    s = sigmsg.sign(seed, sigmsg.message(fields, flag))
    return s + (bytes([flag]) if flag else b'')


def merkle_wrap(body: bytes) -> bytes:
    sib = b'\x5b' * 32
    c1 = hashlib.sha256(hashlib.sha256(body).digest()).digest()
    c2 = hashlib.sha256(sib).digest()
    root = bytes(a ^ b for a, b in zip(c1, c2))
    return isa.push(sib) + isa.push(body) + O('MERKLEVAL') + root


def taproot_root(pk, script):
    t = bytearray(hashlib.sha256(pk + hashlib.sha256(script).digest()).digest())
    t[31] &= 0x7f
    return nb.crypto_core_ed25519_add(
        pk, nb.crypto_scalarmult_ed25519_base_noclamp(bytes(t)))


class Gen:
    def __init__(self, rng, maxdepth=4):
        self.rng = rng
        self.maxdepth = maxdepth
        self.handles = []
        self.fresh = 0.8

    def use_fresh(self):
        return self.rng.random() < self.fresh

    # ----------------------------------------------------------- snippets
    def snippet(self, depth):
        rng = self.rng
        r = rng.random()
        if depth < self.maxdepth and r < 0.24:
            return self.control(depth)
        groups = (self.s_const, self.s_unary, self.s_binary, self.s_nary,
                  self.s_tapeop, self.s_cache, self.s_sig, self.s_time,
                  self.s_crypto, self.s_misc, self.s_stackops)
        w = (3, 4, 5, 4, 3, 4, 3, 1.5, 3, 2, 3)
        return rng.choices(groups, w)[0]()

    def s_const(self):
        rng = self.rng
        return rng.choice((O('TRUE'), O('FALSE'), P(g_bytes(rng)),
                           b'\x02' + rbytes(rng, 1), P(g_int(rng)),
                           b'\x04' + (3).to_bytes(2, 'big') + rbytes(rng, 3)))

    def pre(self, *gens):
        """fresh operands (bottom..top) or nothing"""
        if self.use_fresh():
            return P(*[g(self.rng) for g in gens])
        return b''

    def s_unary(self):
        rng = self.rng
        k = rng.choice(('SIZE', 'SHA256', 'SHAKE256', 'NOT', 'DUP', 'I2F',
                        'F2I', 'DSCALAR', 'CLAMP', 'DPOINT', 'VERIFY',
                        'RANDOM'))
        if k == 'SIZE':
            return self.pre(g_bytes) + O('SIZE')
        if k == 'SHA256':
            return self.pre(g_bytes) + O('SHA256')
        if k == 'SHAKE256':
            return self.pre(g_bytes) + O('SHAKE256') + bytes([rng.choice(
                (0, 1, 20, 32, 255))])
        if k == 'NOT':
            return self.pre(g_bytes) + O('NOT')
        if k == 'DUP':
            return self.pre(g_bytes) + O('DUP')
        if k == 'I2F':
            return self.pre(g_int) + O('INT_TO_FLOAT')
        if k == 'F2I':
            return self.pre(g_float) + O('FLOAT_TO_INT')
        if k == 'DSCALAR':
            return self.pre(g_seed) + O('DERIVE_SCALAR')
        if k == 'CLAMP':
            return self.pre(lambda r: rbytes(r, r.choice((32, 32, 40, 31)))) \
                + O('CLAMP_SCALAR') + bytes([rng.choice((0, 1, 255))])
        if k == 'DPOINT':
            return self.pre(g_scalar) + O('DERIVE_POINT')
        if k == 'VERIFY':
            return self.pre(g_true) + O('VERIFY')
        return self.pre(lambda r: isa.int_enc(r.choice(
            (0, 1, 8, 32, 1024, 1025, -1, 5000)))) + O('RANDOM')

    def s_binary(self):
        rng = self.rng
        k = rng.choice(('EQUAL', 'EQV', 'CONCAT', 'CATS', 'XOR', 'OR', 'AND',
                        'LESS', 'LEQ', 'FLESS', 'FLEQ', 'DIVS', 'MODS',
                        'DIVFS', 'MODFS', 'SPLIT', 'SPLITS', 'SWAP2'))
        if k in ('EQUAL', 'EQV'):
            a = g_bytes(rng)
            b = a if rng.random() < (0.5 if k == 'EQUAL' else 0.85) \
                else g_bytes(rng)
            pre = P(a, b) if self.use_fresh() else b''
            return pre + O('EQUAL' if k == 'EQUAL' else 'EQUAL_VERIFY')
        if k == 'CONCAT':
            return self.pre(g_bytes, g_bytes) + O('CONCAT')
        if k == 'CATS':
            return self.pre(g_str, g_str) + O('CONCAT_STR')
        if k in ('XOR', 'OR', 'AND'):
            return self.pre(g_bytes, g_bytes) + O(k)
        if k in ('LESS', 'LEQ'):
            a = g_int(rng)
            r = rng.random()
            b = a if r < 0.25 else (isa.int_enc(isa.int_dec(a) + rng.choice(
                (-1, 1))) if r < 0.45 else g_int(rng))
            return (P(a, b) if self.use_fresh() else b'') + O(
                'LESS' if k == 'LESS' else 'LESS_OR_EQUAL')
        if k in ('FLESS', 'FLEQ'):
            a = g_float(rng)
            b = a if rng.random() < 0.3 else g_float(rng)
            return (P(a, b) if self.use_fresh() else b'') + O(
                'FLOAT_LESS' if k == 'FLESS' else 'FLOAT_LESS_OR_EQUAL')
        if k in ('DIVS', 'MODS'):
            return self.pre(g_int, g_int) + O('DIV_INTS' if k == 'DIVS'
                                              else 'MOD_INTS')
        if k in ('DIVFS', 'MODFS'):
            return self.pre(g_float, g_float) + O(
                'DIV_FLOATS' if k == 'DIVFS' else 'MOD_FLOATS')
        if k == 'SPLIT':
            it = g_bytes(rng)
            idx = isa.int_enc(rng.choice((0, 1, len(it) - 1, len(it),
                                          len(it) + 1, -1, 2)))
            return (P(it, idx) if self.use_fresh() else b'') + O('SPLIT')
        if k == 'SPLITS':
            it = g_str(rng)
            try:
                n = len(it.decode())
            except UnicodeDecodeError:
                n = 2
            idx = isa.int_enc(rng.choice((0, 1, n - 1, n, n + 1, -1)))
            return (P(it, idx) if self.use_fresh() else b'') + O('SPLIT_STR')
        return self.pre(g_bytes, g_bytes) + O('SWAP2')

    def s_nary(self):
        rng = self.rng
        k = rng.choice(('ADD', 'SUB', 'MULT', 'ADDF', 'SUBF', 'ADDP', 'SUBP',
                        'ADDS', 'SUBS'))
        n = rng.choice((0, 1, 2, 2, 2, 3, 5))
        g = {'ADD': g_int, 'SUB': g_int, 'MULT': g_int, 'ADDF': g_float,
             'SUBF': g_float, 'ADDP': g_point, 'SUBP': g_point,
             'ADDS': g_scalar, 'SUBS': g_scalar}[k]
        name = {'ADD': 'ADD_INTS', 'SUB': 'SUBTRACT_INTS', 'MULT': 'MULT_INTS',
                'ADDF': 'ADD_FLOATS', 'SUBF': 'SUBTRACT_FLOATS',
                'ADDP': 'ADD_POINTS', 'SUBP': 'SUBTRACT_POINTS',
                'ADDS': 'ADD_SCALARS', 'SUBS': 'SUBTRACT_SCALARS'}[k]
        pre = P(*[g(rng) for _ in range(n)]) if self.use_fresh() else b''
        cnt = n if rng.random() < 0.9 else max(0, n + rng.choice((-1, 1)))
        return pre + O(name) + bytes([cnt])

    def s_tapeop(self):
        rng = self.rng
        k = rng.choice(('DIV', 'MOD', 'DIVF', 'MODF', 'VAL', 'MSG', 'CT',
                        'CTV'))
        if k in ('DIV', 'MOD'):
            d = isa.int_enc(rng.choice((1, 2, 3, -1, -2, 7, 0, 256, 10**12)))
            if rng.random() < 0.1:
                d = b'\x00' + d
            return self.pre(g_int) + O('DIV_INT' if k == 'DIV' else 'MOD_INT') \
                + bytes([len(d)]) + d
        if k in ('DIVF', 'MODF'):
            return self.pre(g_float) + O('DIV_FLOAT' if k == 'DIVF'
                                         else 'MOD_FLOAT') + g_float(rng)
        if k == 'VAL':
            nm = rng.choice(NAMES)
            return O('GET_VALUE') + bytes([len(nm)]) + nm
        if k == 'MSG':
            return O('GET_MESSAGE') + bytes([rng.choice(
                (0, 1, 2, 4, 0x10, 0xff, rng.getrandbits(8)))])
        flag = rng.choice((0, 1, 4, 5, 0x10, 2, 0x80))
        tmpl = []
        for i in range(8, 0, -1):
            if (flag >> (i - 1)) & 1:
                v = FIELDS.get(f'sigfield{i}', b'?')
                tmpl.append(v if rng.random() < 0.7 else v + b'!')
        return (P(*tmpl) if self.use_fresh() else b'') + O(
            'CHECK_TEMPLATE' if k == 'CT' else 'CHECK_TEMPLATE_VERIFY') \
            + bytes([flag])

    def s_cache(self):
        rng = self.rng
        k = rng.choice(('POP0', 'POP1', 'WRITE', 'WRITE', 'READ', 'READ',
                        'RCZ', 'RCS', 'RCSZ'))
        key = rng.choice(KEYS)
        if k == 'POP0':
            return self.pre(g_bytes) + O('POP0')
        if k == 'POP1':
            n = rng.choice((0, 1, 2, 3))
            return (P(*[g_bytes(rng) for _ in range(n)]) if self.use_fresh()
                    else b'') + O('POP1') + bytes([n])
        if k == 'WRITE':
            n = rng.choice((0, 1, 2, 3))
            return (P(*[g_bytes(rng) for _ in range(n)]) if self.use_fresh()
                    else b'') + O('WRITE_CACHE') + bytes([len(key)]) + key \
                + bytes([n])
        if k == 'READ':
            return O('READ_CACHE') + bytes([len(key)]) + key
        if k == 'RCZ':
            return O('READ_CACHE_SIZE') + bytes([len(key)]) + key
        if k == 'RCS':
            return P(key) + O('READ_CACHE_STACK')
        return P(key) + O('READ_CACHE_STACK_SIZE')

    def s_sig(self):
        rng = self.rng
        k = rng.choice(('CS', 'CSV', 'SIGN', 'SIGNS', 'CSS', 'CMS', 'CMSV',
                        'TRK'))
        i = rng.randrange(len(SEEDS))
        if k in ('CS', 'CSV'):
            f = rng.choice((0, 0, 1, 4, 0x10))
            allowed = rng.choice((0xff, f, 0, f | 2))
            sig = sig_for(SEEDS[i], f)
            bad = 0.35 if k == 'CS' else 0.12
            if rng.random() < bad:
                r = rng.random()
                if r < 0.5:
                    sig = bytes([sig[0] ^ 1]) + sig[1:]
                elif r < 0.85:
                    i = (i + 1) % 3
                else:
                    sig = sig[:63]
            key = PKS[i]
            return (P(sig, key) if self.use_fresh() else b'') + O(
                'CHECK_SIG' if k == 'CS' else 'CHECK_SIG_VERIFY') \
                + bytes([allowed])
        if k == 'SIGN':
            return self.pre(g_seed) + O('SIGN') + bytes([rng.choice(
                (0, 1, 4, 0xff))])
        if k == 'SIGNS':
            return self.pre(g_bytes, g_seed) + O('SIGN_STACK')
        if k == 'CSS':
            msg = g_bytes(rng)
            sig = sigmsg.sign(SEEDS[i], msg)
            if rng.random() < 0.25:
                msg = msg + b'x'
            if rng.random() < 0.05:
                sig += b'\x00'
            return (P(sig, msg, PKS[i]) if self.use_fresh() else b'') \
                + O('CHECK_SIG_STACK')
        if k in ('CMS', 'CMSV'):
            n = rng.choice((1, 2, 3))
            m = rng.randrange(0, n + 1)
            signers = rng.sample(range(3), n)
            sigs = [sig_for(SEEDS[signers[j]], 0) for j in range(m)]
            if m and rng.random() < 0.25:
                sigs[0] = sig_for(SEEDS[3], 0)          # outsider
            if m >= 2 and rng.random() < 0.2:
                sigs[1] = sigs[0]
            keys = [PKS[s] for s in signers]
            return (P(*sigs, *keys) if self.use_fresh() else b'') + O(
                'CHECK_MULTISIG' if k == 'CMS' else 'CHECK_MULTISIG_VERIFY') \
                + bytes([rng.choice((0, 0xff)), m, n])
        # taproot key path with an arbitrary root key (plain signature)
        sig = sig_for(SEEDS[i], 0)
        if rng.random() < 0.3:
            sig = sig_for(SEEDS[(i + 1) % 3], 0)
        return P(sig, PKS[i]) + O('TAPROOT') + b'\x00'

    def s_time(self):
        rng = self.rng
        now = 1_700_000_000
        c = rng.choice((0, 1, now - 5, now, now + 5, now + 59, now + 60,
                        now + 61, 2**32))
        enc = c.to_bytes(max(1, (c.bit_length() + 7) // 8), 'big')
        if rng.random() < 0.2:
            enc = b'\x00' * 2 + enc
        if rng.random() < 0.05:
            enc = b''
        op = rng.choice(('CHECK_TIMESTAMP', 'CHECK_EPOCH',
                         'CHECK_TIMESTAMP_VERIFY', 'CHECK_EPOCH_VERIFY'))
        return P(enc) + O(op)

    def s_crypto(self):
        rng = self.rng
        k = rng.choice(('MASU', 'MASV', 'CAS', 'DAS', 'INVOKE', 'TRANSFER'))
        if k == 'MASU':
            return self.pre(g_seed, g_bytes, g_point) \
                + O('MAKE_ADAPTER_SIG_PUBLIC')
        if k == 'MASV':
            return self.pre(g_bytes, g_scalar, g_seed) \
                + O('MAKE_ADAPTER_SIG_PRIVATE')
        if k == 'CAS':
            T = rng.choice(POINTS)
            m = g_bytes(rng)
            sd = rng.choice(SEEDS)
            X, R, sa = make_adapter(rng, sd, m, T)
            r = rng.random()
            if r < 0.1:
                m = m + b'!'
            elif r < 0.2:
                sa = bytes([sa[0] ^ 1]) + sa[1:]
            elif r < 0.25:
                sa = sa[:31] + bytes([sa[31] | 0x80])
            elif r < 0.3:
                T = rng.choice(POINTS)
            return P(sa, R, m, T, X) + O('CHECK_ADAPTER_SIG')
        if k == 'DAS':
            if rng.random() < 0.6:
                T = rng.choice(POINTS)
                _, R, sa = make_adapter(rng, rng.choice(SEEDS), b'm', T)
                return P(sa, R, rng.choice(SCALARS)) + O('DECRYPT_ADAPTER_SIG')
            return self.pre(g_scalar, g_point, g_scalar) \
                + O('DECRYPT_ADAPTER_SIG')
        if k == 'INVOKE':
            argc = rng.choice((0, 1, 2, 3, -1))
            args = [g_bytes(rng) for _ in range(max(argc, 0))]
            cid = CID if rng.random() < 0.9 else b'nope'
            return P(*args, isa.int_enc(argc), cid) + O('INVOKE')
        cnt = rng.choice((0, 1, 2))
        proofs = [rng.choice((b'\x01ok', b'\x00bad', b'\x01ok2'))
                  for _ in range(cnt)]
        sources = [b'src%d' % j for j in range(cnt)]
        amount = isa.int_enc(rng.choice((0, 5, 10, 11, -1)))
        return P(*proofs, *sources, bytes([cnt]), b'dest',
                 rng.choice((b'', b'c')), amount,
                 TID if rng.random() < 0.9 else b'none') + O('CHECK_TRANSFER')

    def s_misc(self):
        rng = self.rng
        k = rng.choice(('DEPTH', 'NOP', 'RETURN', 'FLAG', 'CALL'))
        if k == 'DEPTH':
            return O('DEPTH')
        if k == 'NOP':
            n = rng.choice((0, 1, 2, 200, 3))
            return (P(*[g_bytes(rng) for _ in range(min(n, 3))])
                    if self.use_fresh() else b'') + bytes(
                [rng.choice((92, 100, 200, 255)), n])
        if k == 'RETURN':
            return O('RETURN') if rng.random() < 0.5 else b''
        if k == 'FLAG':
            if rng.random() < 0.3:
                return rng.choice((O('SET_FLAG'), O('UNSET_FLAG'))) + b'\x01\x01'
            return b''
        if self.handles and rng.random() < 0.8:
            return isa.CALL(rng.choice(self.handles))
        return isa.CALL(rng.choice((0, 9)))

    def s_stackops(self):
        rng = self.rng
        k = rng.choice(('COPY', 'REVERSE', 'SWAP', 'DUP'))
        if k == 'COPY':
            return self.pre(g_bytes) + O('COPY') + bytes([rng.choice(
                (0, 1, 2, 3))])
        if k == 'REVERSE':
            n = rng.choice((0, 1, 2, 3, 4))
            return (P(*[g_bytes(rng) for _ in range(n)]) if self.use_fresh()
                    else b'') + O('REVERSE') + bytes([n])
        if k == 'SWAP':
            n = rng.choice((2, 3, 4))
            i, j = rng.randrange(n + 1), rng.randrange(n + 1)
            return (P(*[g_bytes(rng) for _ in range(n)]) if self.use_fresh()
                    else b'') + O('SWAP') + bytes([i, j])
        return O('DUP')

    # ----------------------------------------------------------- control
    def block(self, depth, maxn=4):
        out = b''
        for _ in range(self.rng.randrange(0, maxn + 1)):
            out += self.snippet(depth)
        return out

    def control(self, depth):
        rng = self.rng
        k = rng.choice(('IF', 'IFELSE', 'TRY', 'TRYERR', 'LOOPN', 'LOOP1',
                        'DEF', 'EVAL', 'MERKLE', 'TAPROOT', 'RETLOOP',
                        'EVALDEF', 'RETCALL', 'IF', 'IFELSE', 'DEF', 'REDEF'))
        d = depth + 1
        if k == 'IF':
            return P(g_bool(rng)) + isa.IF(self.block(d))
        if k == 'IFELSE':
            return P(g_bool(rng)) + isa.IF_ELSE(self.block(d), self.block(d))
        if k == 'TRY':
            return isa.TRY(self.block(d), self.block(d, 2))
        if k == 'TRYERR':
            return isa.TRY(self.block(d, 2) + O('FALSE') + O('VERIFY'),
                           self.block(d, 3))
        if k == 'LOOPN':
            n = rng.choice((0, 1, 2, 3))
            body = self.block(d, 2)
            # counter on top: keep it on top by stashing it in the cache
            body = O('WRITE_CACHE') + b'\x02ct\x01' + body \
                + O('READ_CACHE') + b'\x02ct' + P(b'\x01') + O('SWAP2') \
                + O('SUBTRACT_INTS') + b'\x02'
            return P(bytes([n])) + isa.LOOP(body) + O('POP0')
        if k == 'LOOP1':
            return O('TRUE') + isa.LOOP(O('POP0') + self.block(d, 3)
                                        + O('FALSE')) + O('POP0')
        if k == 'RETLOOP':
            return O('TRUE') + isa.LOOP(O('POP0') + self.block(d, 2)
                                        + O('RETURN')) + self.block(d, 2)
        if k == 'DEF':
            h = rng.choice((0, 1, 2, 200))
            self.handles.append(h)
            body = self.block(d, 3)
            out = isa.DEF(h, body)
            if rng.random() < 0.8:
                out += self.block(depth, 1) + isa.CALL(h)
            return out
        if k == 'EVALDEF':
            # an evaluated / merklized script redefines a function: the
            # caller's definition must be the one called afterwards
            h = rng.choice((0, 3))
            inner = isa.DEF(h, P(b'inn')) + (isa.CALL(h) if rng.random() < 0.5
                                            else b'')
            how = rng.random()
            ev = (P(inner) + O('EVAL')) if how < 0.6 else merkle_wrap(inner)
            return isa.DEF(h, P(b'out')) + ev + isa.CALL(h)
        if k == 'REDEF':
            # a handle defined twice (bodies of equal or different length):
            # the later definition is the one a later CALL runs
            h = rng.choice((0, 6))
            a, b = P(b'one'), P(b'two') if rng.random() < 0.7 else P(b'three')
            mid = self.block(depth, 1)
            return isa.DEF(h, a) + (isa.CALL(h) if rng.random() < 0.5 else b'') \
                + mid + isa.DEF(h, b) + isa.CALL(h)
        if k == 'RETCALL':
            # RETURN at some depth inside a function: returns to the caller
            h = rng.choice((4, 5))
            inner = O('RETURN') + P(b'dead')
            for _ in range(rng.randrange(0, 3)):
                inner = rng.choice((
                    O('TRUE') + isa.IF(inner),
                    O('FALSE') + isa.IF_ELSE(P(b'x'), inner),
                    isa.TRY(inner, P(b'e')),
                    isa.TRY(O('FALSE') + O('VERIFY'), inner)))
            return isa.DEF(h, P(b'a') + inner + P(b'dead2')) + isa.CALL(h) \
                + P(b'after')
        if k == 'EVAL':
            body = self.block(d, 3)
            return (P(body) if body else b'\x03\x00') + O('EVAL')
        if k == 'MERKLE':
            body = self.block(d, 3) or O('TRUE')
            if rng.random() < 0.06:
                # the committed branch is the EMPTY script, a script of the
                # witness's own parked underneath
                sib = bytes(32)
                import hashlib as _h
                c1 = _h.sha256(_h.sha256(b'').digest()).digest()
                c2 = _h.sha256(sib).digest()
                root_ = bytes(a ^ b for a, b in zip(c1, c2))
                return P(body) + P(sib) + b'\x03\x00' + O('MERKLEVAL') + root_
            w = merkle_wrap(body)
            if rng.random() < 0.15:
                w = w[:-1] + bytes([w[-1] ^ 1])
            return w
        body = self.block(d, 3) or O('TRUE')
        pk = rng.choice(PKS)
        if rng.random() < 0.06:
            # a root committing to the EMPTY script; a script parked under
            # the empty item must not run in its place
            return P(body) + b'\x03\x00' + P(pk, taproot_root(pk, b'')) \
                + O('TAPROOT') + b'\x00'
        root = taproot_root(pk, body)
        if rng.random() < 0.15:
            root = bytes([root[0] ^ 1]) + root[1:]
        return P(body, pk, root) + O('TAPROOT') + b'\x00'

    def program(self):
        return self.block(0, self.rng.choice((2, 4, 6, 8)))


def mutate(rng, prog: bytes) -> bytes:
    b = bytearray(prog)
    if not b:
        return prog
    for _ in range(rng.randrange(1, 3)):
        if not b:
            break
        p = rng.randrange(len(b))
        r = rng.random()
        if r < 0.35:
            b[p] = (b[p] + rng.choice((1, -1))) & 0xff
        elif r < 0.55:
            del b[p]
        elif r < 0.7:
            b[p:p] = bytes([b[p]])
        elif r < 0.85:
            b[p] = rng.choice((0, 1, 0xff, 0x80))
        else:
            del b[p:]
    return bytes(b)


def raw(rng) -> bytes:
    n = rng.randrange(1, 40)
    out = bytearray()
    while len(out) < n:
        if rng.random() < 0.7:
            out.append(rng.randrange(0, 92))
        else:
            out.append(rng.getrandbits(8))
    return bytes(out)


class ReadOnlyContract:
    """deterministic pure contract used by both the VM run and the model"""

    def abi(self, args):
        if len(args) == 3:
            return None
        return [b'n%d' % len(args)] + [bytes(a[:4]) for a in args[:2]]

    def verify_txn_proof(self, proof):
        return proof[:1] == b'\x01'

    def verify_transfer(self, proof, source, destination):
        return destination == b'dest'

    def verify_txn_constraint(self, proof, constraint):
        return constraint == b'c' and proof.endswith(b'ok')

    def calc_txn_aggregates(self, proofs, scope=None):
        return {scope: 5 * len(proofs)}


def initial_cache(rng):
    c = dict(FIELDS)
    if rng.random() < 0.2:
        del c['sigfield3']
    now = 1_700_000_000
    if rng.random() < 0.6:
        c['timestamp'] = rng.choice((now, now + 10, now + 59, now + 60,
                                     now - 100, 0))
    c['vint'] = rng.choice((0, 5, -1, 2**40, 255))
    c['vstr'] = rng.choice(('text', '', 'café'))
    c['vflt'] = rng.choice((1.5, -0.25, 0.0, 16777216.0))
    c['vlist'] = [b'a', 'b', 3, 2.0, None]
    c['vnone'] = None
    c['vbytes'] = b'raw-bytes'
    c['vbig'] = rng.choice((0.1, 1e39, 3.0))
    if rng.random() < 0.5:
        c[b'raw'] = rng.choice((b'hello', b'', b'\x01' * 32))
    if rng.random() < 0.5:
        c[b'lst'] = [b'one', b'two', b'three'][:rng.randrange(0, 4)]
    if rng.random() < 0.3:
        c[b'emb'] = (b't1', b't2')
    return c
