"""Builder-output corpus: every lock / witness builder of tools.py called with
generated parameters. Used by the decompiler round-trip check (C12)."""
from __future__ import annotations
import hashlib

from .. import env
from ..ref import sigmsg


def rbytes(rng, n):
    return bytes(rng.getrandbits(8) for _ in range(n))


def corpus(rng):
    """yield (builder name, script bytes)"""
    functions, parsing, tools, _, _ = env.mods()
    S = tools.Script
    seed1, seed2, seed3 = rbytes(rng, 32), rbytes(rng, 32), rbytes(rng, 32)
    pk1, pk2, pk3 = (sigmsg.pubkey(s) for s in (seed1, seed2, seed3))
    fields = {f'sigfield{i}': rbytes(rng, rng.choice((1, 8, 32, 100, 200)))
              for i in range(1, 9) if rng.random() < 0.6}
    if not fields:
        fields = {'sigfield1': b'x'}
    while sum(map(len, fields.values())) > 900:
        k = max(fields, key=lambda x: len(fields[x]))
        fields[k] = fields[k][:len(fields[k]) // 2]
    flags = rng.choice(('00', '01', '0f', 'f0', '80'))
    committed = S.from_src(rng.choice((
        'true', 'push x0102 sha256 pop0 true',
        f'push x{pk2.hex()} check_sig x00',
        'if { true } else { false }',
        'push d' + str(rng.randrange(1, 10**9)) + ' check_timestamp')))
    big = S.from_bytes(b'\x04' + (300).to_bytes(2, 'big') + rbytes(rng, 300)
                       + b'\x06\x01')
    ts = rng.choice((1, 127, 128, 255, 256, 32768, env.NOW0, 2**31 - 1, 2**31))
    out = []

    def add(name, s):
        if isinstance(s, (tuple, list)):
            for k, x in enumerate(s):
                add(f'{name}[{k}]', x)
        elif isinstance(s, dict):
            return
        else:
            out.append((name, bytes(s)))
    t = tools
    add('timestamp_after', t.make_timestamp_after_lock(ts, rng.random() < .5))
    add('timestamp_before', t.make_timestamp_before_lock(ts, rng.random() < .5))
    add('timestamp_between', t.make_timestamp_between_lock(ts, ts + 100))
    add('scripthash_lock', t.make_scripthash_lock(committed))
    add('scripthash_lock_big', t.make_scripthash_lock(big))
    add('scripthash_witness', t.make_scripthash_witness(committed))
    add('scripthash_witness_big', t.make_scripthash_witness(big))
    T = functions.derive_point_from_scalar(functions.clamp_scalar(seed3, True))
    add('adapter_lock_pub', t.make_adapter_lock_pub(pk1, T, flags))
    add('adapter_lock_prv', t.make_adapter_lock_prv(pk1, seed3, flags))
    add('single_sig_lock', t.make_single_sig_lock(pk1, flags))
    add('single_sig_lock2', t.make_single_sig_lock2(pk1, flags))
    add('single_sig_witness', t.make_single_sig_witness(seed1, fields, flags))
    add('single_sig_witness2', t.make_single_sig_witness2(seed1, fields, flags))
    add('multisig_lock', t.make_multisig_lock([pk1, pk2, pk3], 2, flags))
    add('adapter_locks_pub', t.make_adapter_locks_pub(pk1, T, flags))
    add('adapter_decrypt', t.make_adapter_decrypt(seed3))
    add('adapter_locks_prv', t.make_adapter_locks_prv(pk1, seed3, flags))
    add('adapter_witness', t.make_adapter_witness(seed1, T, fields, flags))
    add('delegate_key_lock', t.make_delegate_key_lock(pk1, flags))
    add('delegate_key_chain_lock', t.make_delegate_key_chain_lock(pk1, flags))
    cts = min(ts, 2**31 - 2000)
    cert = t.make_delegate_key_cert(seed1, pk2, cts, cts + 1000,
                                    rng.random() < 0.5)
    add('delegate_key_witness',
        t.make_delegate_key_witness(seed2, cert, fields, flags))
    cert2 = t.make_delegate_key_cert(seed2, pk3, cts, cts + 500, False)
    add('delegate_key_chain_witness',
        t.make_delegate_key_chain_witness(seed3, [cert2, cert], fields, flags))
    add('graftroot_lock', t.make_graftroot_lock(pk1, flags))
    add('graftroot_witness_keyspend',
        t.make_graftroot_witness_keyspend(seed1, fields, flags))
    add('graftroot_witness_surrogate',
        t.make_graftroot_witness_surrogate(seed1, committed))
    pre = rbytes(rng, rng.randrange(1, 65))
    to = rng.choice((0, 1, 60, 86400, 10**6))
    add('htlc_sha256_lock', t.make_htlc_sha256_lock(pk1, pk2, pre, timeout=to,
                                                    sigflags=flags))
    hs = rng.choice((1, 16, 20, 32, 64))
    add('htlc_shake256_lock', t.make_htlc_shake256_lock(
        pk1, pk2, pre, hash_size=hs, timeout=to, sigflags=flags))
    add('htlc_witness', t.make_htlc_witness(seed1, pre, fields, flags))
    add('htlc2_sha256_lock', t.make_htlc2_sha256_lock(pk1, pk2, pre,
                                                      timeout=to))
    add('htlc2_shake256_lock', t.make_htlc2_shake256_lock(
        pk1, pk2, pre, hash_size=hs, timeout=to))
    add('htlc2_witness', t.make_htlc2_witness(seed1, pre, fields, flags))
    add('ptlc_lock', t.make_ptlc_lock(pk1, pk2, timeout=to, sigflags=flags))
    add('ptlc_lock_tweak', t.make_ptlc_lock(pk1, pk2, T, timeout=to))
    add('ptlc_witness', t.make_ptlc_witness(seed1, fields, sigflags=flags))
    add('ptlc_witness_tweak', t.make_ptlc_witness(
        seed1, fields, functions.clamp_scalar(seed3, True), flags))
    add('ptlc_refund_witness', t.make_ptlc_refund_witness(seed2, fields, flags))
    add('taproot_lock', t.make_taproot_lock(pk1, committed, sigflags=flags))
    kf = flags if flags != 'ff' else '00'
    add('taproot_witness_keyspend', t.make_taproot_witness_keyspend(
        seed1, fields, committed, sigflags=kf))
    add('taproot_witness_scriptspend',
        t.make_taproot_witness_scriptspend(pk1, committed))
    add('nonnative_taproot_lock',
        t.make_nonnative_taproot_lock(pk1, committed, sigflags=flags))
    add('graftap_lock', t.make_graftap_lock(pk1, flags))
    add('graftap_witness_keyspend',
        t.make_graftap_witness_keyspend(seed1, fields, kf))
    add('graftap_witness_scriptspend',
        t.make_graftap_witness_scriptspend(seed1, committed))
    leaves = [f'push d{k} push x{rbytes(rng, 3).hex()} equal'
              for k in range(rng.randrange(1, 6))]
    lock, unlocks = t.make_merklized_script_prioritized(list(leaves))
    add('merklized_prioritized_lock', lock)
    add('merklized_prioritized_unlock', unlocks)
    lock, unlocks = t.make_merklized_script_balanced(list(leaves))
    add('merklized_balanced_lock', lock)
    add('merklized_balanced_unlock', unlocks)
    n = rng.randrange(2, 5)
    pks = [sigmsg.pubkey(rbytes(rng, 32)) for _ in range(n)]
    amhl = t.setup_amhl(rbytes(rng, 16), pks, flags,
                        refund_pubkeys={pks[0]: pk2})
    for k, pk in enumerate(pks):
        add(f'amhl_hop{k}', amhl[pk][:2])
    return out
