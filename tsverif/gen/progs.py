"""Abstract program generator for the compiler / decompiler checks (C11, C12).

Programs range over the full instruction set with nesting <= 4 and boundary-
biased operands per operand kind. They need not be runnable.
"""
from __future__ import annotations
import struct

from ..ref import isa

NAMES_PLAIN = [n for n in isa.NAMES
               if isa.KIND[n] not in ('def', 'blk', 'blk2')]
VARNAMES = ['a', 'k', 'x', 'sig', 'd1', 'xff', 's', 'Temp', 'root9', 'P',
            'dead', 'e', 'n0']
STRINGS = [b'hello world', b'abc', b'a', b'timestamp', b'sigfield1', b'x',
           b'it is', b'UPPER lower', b'naive cafe', b'a b c d', b'tab',
           'café'.encode(), b'123', b'd5', b'x0a', b'OP_DUP', b'#',
           b'{ }', b'a  b', b' lead', b'trail ']


def rbytes(rng, n: int) -> bytes:
    return bytes(rng.getrandbits(8) for _ in range(n))


def small_val(rng) -> bytes:
    r = rng.random()
    if r < 0.25:
        return isa.int_enc(rng.choice([0, 1, -1, 2, 5, 127, 128, -128, -129,
                                       255, 256, 32767, 32768, -32768, 65535,
                                       10**6, -10**9, 2**31, 2**40]))
    if r < 0.45:
        return rng.choice(STRINGS)
    if r < 0.55:
        return struct.pack('>f', rng.choice([0.0, 1.0, -1.0, 2.5, 100.0, 0.1,
                                             -3.21, 16777216.0, 1e10]))
    n = rng.choice([1, 1, 2, 3, 4, 8, 20, 32, 33, 64])
    return rbytes(rng, n)


def push_val(rng, big_ok: bool) -> bytes:
    r = rng.random()
    if big_ok and r < 0.04:
        n = rng.choice([255, 256, 257, 1000, 32767, 32768, 65535])
        return rbytes(rng, 8) * (n // 8) + rbytes(rng, n % 8)
    if r < 0.12:
        return rbytes(rng, rng.choice([127, 128, 129, 200, 254, 255]))
    return small_val(rng)


def u8(rng) -> int:
    return rng.choice([0, 1, 2, 3, 127, 128, 255, rng.randrange(256)])


def key(rng) -> bytes:
    r = rng.random()
    if r < 0.3:
        return rng.choice(VARNAMES).encode()
    if r < 0.5:
        return bytes([rng.choice([0, 1, 69, 80, 127, 128, 255])])
    if r < 0.55:
        return b''
    if r < 0.6:
        return rbytes(rng, rng.choice([127, 128, 255]))
    return rng.choice(STRINGS + [rbytes(rng, rng.randrange(1, 9))])


def plain_op(rng, big_ok=False):
    name = rng.choice(NAMES_PLAIN)
    kind = isa.KIND[name]
    if kind == 'none':
        return ['op', name]
    if kind == 'u8':
        return ['op', name, u8(rng)]
    if kind == 'u8u8':
        return ['op', name, u8(rng), u8(rng)]
    if kind == 'u8u8u8':
        return ['op', name, u8(rng), u8(rng), u8(rng)]
    if kind == 'lv1':
        if name == 'OP_PUSH1':
            v = push_val(rng, False)[:255]
            if rng.random() < 0.05:
                v = b''
            return ['op', name, v]
        if name in ('OP_DIV_INT', 'OP_MOD_INT'):
            return ['op', name, isa.int_enc(rng.choice(
                [1, 2, -1, 3, 7, 127, 128, 255, 256, -128, -129, 10**9,
                 2**64 + 1]))]
        return ['op', name, key(rng)]
    if kind == 'lv2':
        v = push_val(rng, big_ok)
        if rng.random() < 0.05:
            v = b''
        return ['op', name, v]
    if kind == 'lv1u8':
        return ['op', name, key(rng), u8(rng)]
    if kind == 'f4':
        return ['op', name, struct.pack('>f', rng.choice(
            [1.0, 2.0, -3.0, 0.5, 1e9, 123456.0, 0.1]))]
    if kind == 'h32':
        return ['op', name, rbytes(rng, 32)]
    raise ValueError(kind)


def gen_block(rng, depth: int, maxn: int, in_def: bool, sugar: bool,
              big_ok: bool):
    out = []
    for _ in range(rng.randrange(0, maxn + 1)):
        out.append(gen_node(rng, depth, in_def, sugar, big_ok))
    return out


def gen_node(rng, depth: int, in_def: bool, sugar: bool, big_ok: bool):
    r = rng.random()
    if depth > 0 and r < 0.22:
        k = rng.choice(['if', 'ifelse', 'try', 'loop', 'def', 'hoist',
                        'hoist'])
        sub = lambda n=3: gen_block(rng, depth - 1, n, in_def or k == 'def',
                                    sugar, False)
        if k == 'if':
            return ['if', sub()]
        if k == 'ifelse':
            return ['ifelse', sub(), sub()]
        if k == 'try':
            return ['try', sub(), sub() if rng.random() < 0.8 else []]
        if k == 'loop':
            return ['loop', sub()]
        if k == 'def' and not in_def:
            return ['def', rng.choice([0, 1, 2, 127, 128, 255]), sub(4)]
        cond = [plain_simple(rng) for _ in range(rng.randrange(0, 3))]
        return ['hoist', cond, sub(), sub() if rng.random() < 0.5 else None]
    if r < 0.45:
        return ['push', push_val(rng, big_ok)]
    if sugar and r < 0.53:
        k = rng.choice(['setvar', 'setvarn', 'loadvar', 'sizevar',
                        'comptime_push', 'macro', 'comptime_exec'])
        nm = rng.choice(VARNAMES)
        if k == 'setvar':
            return ['setvar', nm, [small_val(rng)
                                   for _ in range(rng.randrange(0, 4))]]
        if k == 'setvarn':
            return ['setvarn', nm, rng.choice([0, 1, 2, 10, 255])]
        if k == 'loadvar':
            return ['loadvar', nm]
        if k == 'sizevar':
            return ['sizevar', nm]
        if k == 'comptime_exec':
            # push ~! { push v1 push v2 .. }: the block runs at compile time
            # and is replaced by the TOP item of its stack
            vals = [bytes(rng.getrandbits(8) for _ in range(
                rng.choice((1, 1, 2, 5, 33)))) for _ in range(
                    rng.choice((1, 2, 2, 3)))]
            return ['comptime_exec', vals]
        if k == 'comptime_push':
            body = [plain_simple(rng) for _ in range(rng.randrange(1, 4))]
            if DEFINED and rng.random() < 0.3:
                body.append(gen_macrocall(rng))
            return ['comptime_push', body]
        if DEFINED and rng.random() < 0.6:
            return gen_macrocall(rng)
        return gen_macro(rng)
    if r < 0.57:
        return ['nop', rng.choice([92, 93, 100, 127, 128, 200, 254, 255]),
                u8(rng)]
    return plain_op(rng, big_ok)


def plain_simple(rng):
    """small op without exotic operands (for hoisted conditions etc.)"""
    r = rng.random()
    if r < 0.4:
        return ['push', small_val(rng)]
    return ['op', rng.choice(['OP_DUP', 'OP_TRUE', 'OP_FALSE', 'OP_EQUAL',
                              'OP_SHA256', 'OP_SIZE', 'OP_NOT', 'OP_DEPTH',
                              'OP_SWAP2', 'OP_LESS', 'OP_VERIFY'])]


DEFINED: list = []     # macros defined so far in the program being generated


def gen_macrocall(rng):
    """a further call of an already defined macro with fresh arguments"""
    name, kinds = rng.choice(DEFINED)
    vals = [u8(rng) if k == 'u8' else rbytes(rng, rng.randrange(1, 6))
            for k in kinds]
    return ['macrocall', name, vals]


def gen_macro(rng):
    # one definition per name and program (what a redefinition means for
    # earlier / later calls is not documented)
    name = rng.choice(['foo', 'bar', 'm', 'dup', 'xadd']) + f'{rng.getrandbits(28):x}'
    nargs = rng.randrange(0, 3)
    argnames = [['arg1', 'n', 'val', 'x1', 'data'][i] for i in range(nargs)]
    template = []
    argvals = []
    for i in range(nargs):
        if rng.random() < 0.5:
            template.append(['op', rng.choice(['OP_COPY', 'OP_POP1',
                                               'OP_ADD_INTS', 'OP_SHAKE256']),
                             ['arg', i]])
            argvals.append(u8(rng))
        else:
            template.append(['op', 'OP_PUSH1', ['arg', i]])
            argvals.append(rbytes(rng, rng.randrange(1, 6)))
        if rng.random() < 0.5:
            template.append(plain_simple(rng))
    if not template or rng.random() < 0.5:
        template.append(plain_simple(rng))
    DEFINED.append((name, ['u8' if isinstance(v, int) else 'bytes'
                           for v in argvals]))
    return ['macro', name, argnames, template, argvals]


def gen_program(rng, depth=4, maxn=6, sugar=True):
    DEFINED.clear()
    return gen_block(rng, depth, maxn, False, sugar, True)


def features_of(nodes, acc=None, depth=0):
    """structural facts used for the non-triviality rule"""
    if acc is None:
        acc = {'blocks': 0, 'maxdepth': 0, 'nodes': 0}
    for n in nodes:
        acc['nodes'] += 1
        t = n[0]
        subs = []
        if t in ('if', 'loop'):
            subs = [n[1]]
        elif t in ('ifelse', 'try'):
            subs = [n[1], n[2]]
        elif t == 'def':
            subs = [n[2]]
        elif t == 'hoist':
            subs = [n[1], n[2]] + ([n[3]] if n[3] is not None else [])
        if subs:
            acc['blocks'] += 1
            acc['maxdepth'] = max(acc['maxdepth'], depth + 1)
            for s in subs:
                features_of(s, acc, depth + 1)
    return acc
