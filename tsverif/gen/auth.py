"""Adversarial witness / lock generators for the authorization checks (C01,
C05): structured byte-code pairs with control flow, plus raw byte strings."""
from __future__ import annotations

from ..ref import isa

O = isa.op
VALID_HEADS = list(range(0, 92))


def rbytes(rng, n):
    return bytes(rng.getrandbits(8) for _ in range(n))


def raw_script(rng) -> bytes:
    """0..48 bytes, biased to valid opcodes and truncated operands"""
    n = rng.randrange(0, 49)
    out = bytearray()
    while len(out) < n:
        r = rng.random()
        if r < 0.55:
            out.append(rng.choice((0, 1, 1, 6, 29, 30, 32, 33, 48, 48, 51, 53,
                                   55, 46, 8, 45, 42)))
        elif r < 0.7:
            out += isa.push(rbytes(rng, rng.randrange(1, 5)))
        elif r < 0.8:
            body = bytes(rng.choice((0, 1, 48, 6, 29)) for _ in
                         range(rng.randrange(0, 4)))
            out += rng.choice((isa.IF(body), isa.IF_ELSE(body, b'\x01'),
                               isa.TRY(body, b'\x00'), isa.LOOP(body),
                               isa.DEF(rng.randrange(3), body),
                               isa.CALL(rng.randrange(3))))
        else:
            out.append(rng.getrandbits(8))
    out = bytes(out[:n]) if rng.random() < 0.5 else bytes(out)
    return out


def wrap_return(rng, depth: int) -> bytes:
    """a RETURN placed at nesting depth `depth` on an executed path"""
    body = O('RETURN')
    if rng.random() < 0.3:
        body = O('TRUE') + O('POP0') + body
    if rng.random() < 0.3:
        body = body + O('FALSE')           # dead code after the return
    for _ in range(depth):
        k = rng.choice(('if', 'else', 'try', 'except', 'loop', 'call', 'eval'))
        if k == 'if':
            body = O('TRUE') + isa.IF(body)
        elif k == 'else':
            body = O('FALSE') + isa.IF_ELSE(O('FALSE'), body)
        elif k == 'try':
            body = isa.TRY(body, O('FALSE'))
        elif k == 'except':
            body = isa.TRY(O('FALSE') + O('VERIFY'), body)
        elif k == 'loop':
            body = O('TRUE') + isa.LOOP(body) + O('POP0')
        elif k == 'call':
            h = rng.choice((0, 1, 7, 200))
            body = isa.DEF(h, body) + isa.CALL(h)
        else:
            body = isa.push(body) + O('EVAL')
    return body


def pressure(rng, neutral=True) -> bytes:
    """grow the stack by n items with one of the growing instructions (close
    to / over a small item limit), then drop them again"""
    n = rng.choice((1, 1, 2, 3, 4, 6))
    k = rng.choice(('copy', 'copy', 'dup', 'depth', 'push', 'split', 'mixed'))
    if k == 'copy':
        g = O('TRUE') + O('COPY') + bytes([n - 1]) if n > 1 else O('TRUE')
    elif k == 'dup':
        g = O('TRUE') + O('DUP') * (n - 1)
    elif k == 'depth':
        g = O('DEPTH') * n
    elif k == 'push':
        g = b''.join(isa.push(rbytes(rng, rng.choice((1, 2, 33, 65))))
                     for _ in range(n))
    elif k == 'split':
        g = isa.push(rbytes(rng, n + 1))
        for _ in range(n - 1):
            g += isa.push(b'\x01') + O('SPLIT')
    else:
        g = O('TRUE') + O('DUP') + O('COPY') + bytes([max(n - 2, 0)])
        n = max(n, 2)
    if not neutral:
        n = rng.randrange(0, n + 1)
    return g + (O('POP1') + bytes([n]) if n != 1 or rng.random() < 0.5
                else O('POP0'))


def callchain(rng) -> bytes:
    """k functions, each calling the next from inside a clause of a random
    construct (stack-neutral): the nesting depth of calls crosses small
    call-stack limits wherever the call sits"""
    k = rng.randrange(1, 5)
    body = O('TRUE') + O('POP0')
    out = b''
    for i in range(k):
        h = 10 + i
        out += isa.DEF(h, body)
        call = isa.CALL(h)
        w = rng.choice(('none', 'if', 'then', 'else', 'try', 'except', 'loop',
                        'else', 'then'))
        if w == 'if':
            call = O('TRUE') + isa.IF(call)
        elif w == 'then':
            call = O('TRUE') + isa.IF_ELSE(call, O('FALSE') + O('VERIFY'))
        elif w == 'else':
            call = O('FALSE') + isa.IF_ELSE(O('FALSE') + O('VERIFY'), call)
        elif w == 'try':
            call = isa.TRY(call, O('FALSE') + O('VERIFY'))
        elif w == 'except':
            call = isa.TRY(O('FALSE') + O('VERIFY'), call)
        elif w == 'loop':
            call = O('TRUE') + isa.LOOP(O('POP0') + call + O('FALSE')) \
                + O('POP0')
        body = call
    return out + body


SWEEP = None


def sweeper() -> bytes:
    """a lock satisfied by ANY stack: drop everything, push true"""
    global SWEEP
    if SWEEP is None:
        SWEEP = O('DEPTH') + isa.LOOP(O('POP0') + O('POP0') + O('DEPTH')) \
            + O('POP0') + O('TRUE')
    return SWEEP


def cut_instruction(rng) -> bytes:
    """the head of an instruction whose operand bytes end before the
    instruction does (a script cut off inside an instruction)"""
    fill = (O('TRUE') + O('POP0')) * 12
    names = [n for n in isa.NAMES if isa.KIND[n] != 'none']
    name = rng.choice(names + ['OP_LOOP', 'OP_IF', 'OP_IF_ELSE', 'OP_DEF',
                               'OP_TRY_EXCEPT', 'OP_PUSH1', 'OP_PUSH2'])
    k = isa.KIND[name]
    code = bytes([isa.CODE[name]])
    if k in ('u8', 'nop'):
        return code
    if k in ('u8u8', 'u8u8u8'):
        return code + bytes(rng.randrange(0, len(k) // 2))
    if k in ('f4', 'h32'):
        return code + rbytes(rng, rng.randrange(0, 4 if k == 'f4' else 32))
    if k in ('lv1', 'lv1u8'):
        if rng.random() < 0.2:
            return code
        n = rng.choice((1, 2, 5, 16, 200))
        return code + bytes([n]) + rbytes(rng, rng.randrange(0, n))
    if k == 'lv2':
        if rng.random() < 0.3:
            return code + bytes(rng.randrange(0, 2))
        n = rng.choice((1, 3, 16, 300))
        return code + n.to_bytes(2, 'big') + rbytes(rng, rng.randrange(0, n))
    # blocks: a declared length that overruns the script (the bytes that ARE
    # there are harmless instructions), or a length field cut in half
    pre = bytes([rng.randrange(3)]) if k == 'def' else b''
    if rng.random() < 0.15:
        return code + pre[:rng.randrange(0, 2)] + bytes(rng.randrange(0, 2))
    n = rng.choice((1, 2, 3, 16, 16, 40, 1000, 65535))
    have = fill[:rng.randrange(0, min(n, len(fill)))]
    if k == 'blk2' and rng.random() < 0.5:
        # the first clause is whole, the second one is cut
        first = fill[:rng.choice((0, 2, 4))]
        return code + isa.blk(first) + n.to_bytes(2, 'big') + have
    return code + pre + n.to_bytes(2, 'big') + have


def cutoff_list(rng):
    """a script list that WOULD authorize if an instruction cut off by the
    end of its script were quietly stepped over: stack set-up, the cut
    instruction as the last thing in a script, then a lock that accepts any
    stack (or, in the last script, a stack that is already [true])"""
    setup = rng.choice((b'', O('TRUE'), O('FALSE'), O('TRUE') + O('FALSE'),
                        O('FALSE') + O('TRUE'), isa.push(rbytes(rng, 3)),
                        isa.push(b'\x00\x00'), O('TRUE') + O('TRUE'),
                        isa.push(b'\x02') + isa.push(b'\x03')))
    cut = cut_instruction(rng)
    inside = rng.random()
    if inside < 0.2:
        # the cut instruction ends a clause that ends the script
        cut = rng.choice((lambda c: O('TRUE') + isa.IF(c),
                          lambda c: O('FALSE') + isa.IF_ELSE(b'', c),
                          lambda c: isa.push(c) + O('EVAL'),
                          lambda c: isa.DEF(5, c) + isa.CALL(5)))(cut)
    pos = rng.choice(('first', 'first', 'middle', 'last'))

    def mk(cut):
        if pos == 'first':
            return [setup + cut, sweeper()]
        if pos == 'middle':
            return [setup, cut, sweeper()]
        return [O('TRUE') + cut] if single else [setup, sweeper() + cut]
    single = rng.random() < 0.5
    scripts, control = mk(cut), mk(b'')
    if rng.random() < 0.3:
        scripts.insert(0, O('TRUE') + O('POP0'))
    return scripts[:4], control


def script_witnesses(rng):
    """witnesses that are PROGRAMS rather than data -> (alone, prefixes):
    `alone` are (name, script) pairs that hold no key material at all (no lock
    may accept them); `prefixes` are stack-neutral (name, script) pairs to put
    in front of an honest witness (the verdict must stay what it was)."""
    h = rng.choice((0, 0, 0, 1, 2, 3))
    body = rng.choice((O('POP0') + O('TRUE'), O('TRUE'), b'',
                       O('POP0') + O('POP0') + O('TRUE'),
                       O('POP0') + O('TRUE') + O('RETURN'),
                       O('DEPTH') + O('POP0') + O('POP0') + O('TRUE')))
    key = rng.choice((b'r', b's', b'c', b'e', b'b', b'd', b'k', b'P', b'T',
                      b'R', b'sa', b'x', b'X'))
    preset = O('TRUE') + O('WRITE_CACHE') + bytes([len(key)]) + key + b'\x01'
    flagop = O('SET_FLAG') + b'\x01\x09'
    alone = [
        ('defines-handle', isa.DEF(h, body)),
        ('defines-handle+true', isa.DEF(h, body) + O('TRUE')),
        ('defines-handle+junk', isa.DEF(h, body) + isa.push(rbytes(rng, 64))
         + isa.push(rbytes(rng, 32))),
        ('presets-register', preset),
        ('presets-register+true', preset + O('TRUE')),
        ('returns-early', O('TRUE') + O('RETURN')),
        ('returns-inside-eval', isa.push(O('TRUE') + O('RETURN')) + O('EVAL')),
        ('true-only', O('TRUE')),
        ('two-trues', O('TRUE') + O('TRUE')),
        ('empty', b''),
    ]
    prefixes = [
        ('defines-handle', isa.DEF(h, body)),
        ('presets-register', preset),
        ('neutral', O('TRUE') + O('POP0')),
    ]
    return alone, prefixes


def witness(rng, lock_info) -> bytes:
    """adversarial witness; lock_info: dict with the handles / keys / items
    the lock consumes."""
    parts = []
    n = rng.randrange(0, 5)
    for _ in range(n):
        r = rng.random()
        if r < 0.25:
            parts.append(wrap_return(rng, rng.randrange(0, 4)))
        elif r < 0.4:
            h = rng.choice(lock_info.get('handles', [0]) + [0, 1])
            body = rng.choice((O('TRUE'), O('RETURN'), b'', O('TRUE') + O('RETURN'),
                               O('POP0') + O('TRUE'), O('FALSE') + O('VERIFY'),
                               O('TRUE') + O('POP0'), O('TRUE') + O('TRUE')))
            n_ = lock_info.get('own_body_len')
            if n_ is not None and rng.random() < 0.6:
                # same byte length as the function the lock defines itself
                body = (O('TRUE') + O('POP0') * n_)[:n_] if n_ else b''
            parts.append(isa.DEF(h, body))
        elif r < 0.55:
            k = rng.choice(lock_info.get('keys', [b'k']) +
                           [b'returned', b'P', b'E', b'timestamp'])
            cnt = rng.randrange(0, 3)
            parts.append(b''.join(isa.push(rbytes(rng, 2)) for _ in range(cnt))
                         + O('WRITE_CACHE') + bytes([len(k)]) + k + bytes([cnt]))
        elif r < 0.62:
            parts.append(pressure(rng, rng.random() < 0.7))
        elif r < 0.7:
            # junk, also EMPTY items (they add no bytes to the stack)
            parts.append(rng.choice((
                isa.push(rbytes(rng, rng.choice((1, 2, 32)))),
                isa.push(rbytes(rng, 1)),
                b'\x03\x00',                                # PUSH1, size 0
                b'\x03\x00' * 2,
                O('GET_MESSAGE') + b'\xff',                  # empty message
                isa.push(b'\x07') + isa.push(b'\x00') + O('SPLIT') + O('POP0'),
            )))
        elif r < 0.8:
            burn = rng.randrange(1, 6)
            parts.append(isa.DEF(9, b'') + isa.CALL(9) * burn)
        elif r < 0.9:
            parts.append(O('TRUE') + O('POP0'))
        else:
            parts.append(rng.choice((O('TRUE'), O('FALSE'), O('DEPTH'),
                                     O('TRUE') + O('VERIFY'))))
    # items the lock expects
    if rng.random() < 0.75:
        for it in lock_info.get('wants', []):
            parts.append(isa.push(it) if rng.random() < 0.9
                         else isa.push(rbytes(rng, len(it) or 1)))
    if rng.random() < 0.15:
        parts.append(wrap_return(rng, rng.randrange(0, 3)))
    return b''.join(parts)


def lock(rng):
    """-> (bytes, info). control-flow prefix (stack-neutral on its executed
    path) followed by a tail of checks."""
    info = {'handles': [], 'keys': [], 'wants': []}
    pre = []
    for _ in range(rng.randrange(0, 3)):
        k = rng.choice(('if', 'ifelse', 'try', 'tryerr', 'call', 'loop',
                        'eval', 'nestedif', 'pressure', 'callchain',
                        'callchain'))
        if k == 'pressure':
            pre.append(pressure(rng))
        elif k == 'callchain':
            pre.append(callchain(rng))
        elif k == 'if':
            pre.append(O('TRUE') + isa.IF(b''))
        elif k == 'ifelse':
            pre.append(O('FALSE') + isa.IF_ELSE(O('FALSE'), b''))
        elif k == 'try':
            pre.append(isa.TRY(b'', b''))
        elif k == 'tryerr':
            pre.append(isa.TRY(O('FALSE') + O('VERIFY'), O('TRUE') + O('POP0')))
        elif k == 'call':
            pre.append(isa.DEF(3, O('TRUE') + O('POP0')) + isa.CALL(3))
        elif k == 'loop':
            pre.append(O('TRUE') + isa.LOOP(O('POP0') + O('FALSE')) + O('POP0'))
        elif k == 'eval':
            pre.append(isa.push(O('TRUE') + O('POP0')) + O('EVAL'))
        else:
            pre.append(O('TRUE') + isa.IF(O('TRUE') + isa.IF(b'')))
    tail = []
    t = rng.choice(('eqv', 'verify', 'fail', 'call', 'readcache', 'plain',
                    'two', 'eqv', 'owndef', 'owndef', 'owndef-eval'))
    if t == 'eqv':
        v = rbytes(rng, rng.choice((1, 2, 20)))
        info['wants'].append(v)
        tail.append(isa.push(v) + O('EQUAL_VERIFY'))
    elif t == 'verify':
        info['wants'].append(b'\x01')
        tail.append(O('VERIFY'))
    elif t == 'fail':
        tail.append(O('FALSE') + O('VERIFY'))
    elif t == 'call':
        h = rng.choice((0, 1))
        info['handles'].append(h)
        tail.append(isa.CALL(h))
    elif t == 'owndef':
        # the lock defines its own function and calls it: whatever an
        # earlier script defined under that handle must not matter
        h = rng.choice((0, 1, 2))
        body = rng.choice((O('TRUE') + O('VERIFY'), O('FALSE') + O('VERIFY'),
                           O('TRUE') + O('POP0'), O('DEPTH') + O('POP0')))
        info['handles'].append(h)
        info['own_body_len'] = len(body)
        tail.append(isa.DEF(h, body) + isa.CALL(h))
    elif t == 'owndef-eval':
        # the lock defines its own function, then EVALUATES an item the
        # witness supplies, then calls its function: what the evaluated
        # script defines under the same handle lives in the evaluation's own
        # copy of the definitions and must not matter
        h = rng.choice((0, 1, 2))
        body, alt = rng.choice((
            (O('FALSE') + O('VERIFY'), b''),
            (O('FALSE') + O('VERIFY'), O('TRUE') + O('POP0')),
            (O('TRUE') + O('VERIFY'), O('FALSE') + O('VERIFY')),
            (O('DEPTH') + O('POP0'), O('FALSE') + O('VERIFY'))))
        info['handles'].append(h)
        info['wants'].append(isa.DEF(h, alt))
        where = rng.choice(('top', 'top', 'function', 'loop'))
        if where == 'top':
            ev = O('EVAL')
        elif where == 'function':
            ev = isa.DEF(7, O('EVAL')) + isa.CALL(7)
        else:
            ev = O('TRUE') + isa.LOOP(O('POP0') + O('EVAL') + O('FALSE')) \
                + O('POP0')
        tail.append(isa.DEF(h, body) + ev + isa.CALL(h))
    elif t == 'readcache':
        k = rng.choice((b'k', b'q'))
        info['keys'].append(k)
        tail.append(O('READ_CACHE') + bytes([len(k)]) + k + O('POP0'))
    elif t == 'two':
        info['wants'] += [b'\x05', b'\x05']
        tail.append(O('EQUAL_VERIFY'))
    fin = rng.choice((O('TRUE'), O('TRUE'), O('TRUE'), O('FALSE'),
                      O('TRUE') + O('TRUE'), b'', isa.push(b'\xff\x00'),
                      b'\x03\x00' + O('TRUE'), O('TRUE') + b'\x03\x00',
                      O('TRUE') + O('RETURN') + O('FALSE'),
                      isa.push(b'\x01')))
    return b''.join(pre) + b''.join(tail) + fin, info


def pair(rng):
    lk, info = lock(rng)
    return [witness(rng, info), lk]


def sigfields(rng, must=(), cap=900):
    """a sigfield set over ALL eight fields (each present with probability
    1/2, sigfield8 more often), contents 0..120 bytes, total below the item
    limit; `must` lists fields that have to be present and non-empty."""
    out = {}
    for k in range(1, 9):
        if rng.random() < (0.7 if k == 8 else 0.5):
            out[f'sigfield{k}'] = rbytes(rng, rng.choice((0, 1, 8, 32, 120)))
    for k in must:
        if not out.get(f'sigfield{k}'):
            out[f'sigfield{k}'] = rbytes(rng, rng.choice((1, 12, 40)))
    if not any(out.values()):
        out['sigfield8'] = b'only-field-8'
    while sum(map(len, out.values())) > cap:
        k = max(out, key=lambda x: len(out[x]))
        out[k] = out[k][:len(out[k]) // 2]
    # a caller's dict has whatever insertion order the caller produced
    if rng.random() < 0.6:
        ks = list(out)
        rng.shuffle(ks)
        out = {k: out[k] for k in ks}
    return out
