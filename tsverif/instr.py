"""Instrumentation by injection (no change to /repo): runtime contracts on
module-level functions, monitored Tape / Stack / deque / cache objects, a
dispatch tracer over the opcode table and a frame tracker over the module-level
control-flow entry points. Every monitor counts its own evaluations so that a
check can tell "held" from "never reached"."""
from __future__ import annotations
import collections
import contextlib
import sys

from . import env


# --------------------------------------------------------------------------
# runtime contracts
# --------------------------------------------------------------------------

class Contract:
    """Wrap `name` in every listed module (the defining module first, then the
    modules that pre-bound it with `from .. import name`). `post(args, kwargs,
    result, exc)` is evaluated on every call."""

    def __init__(self, modules, name: str, post) -> None:
        self.modules = [m for m in modules if hasattr(m, name)]
        self.name = name
        self.post = post
        self.calls = 0
        self.orig = getattr(self.modules[0], name)
        self._saved = [(m, getattr(m, name)) for m in self.modules]

    def install(self) -> 'Contract':
        orig, post, me = self.orig, self.post, self

        def wrapper(*a, **kw):
            me.calls += 1
            try:
                r = orig(*a, **kw)
            except BaseException as e:
                post(a, kw, None, e)
                raise
            post(a, kw, r, None)
            return r
        wrapper.__name__ = self.name
        wrapper.__wrapped__ = orig
        for m, old in self._saved:
            if old is orig:
                setattr(m, self.name, wrapper)
        return self

    def remove(self) -> None:
        for m, old in self._saved:
            setattr(m, self.name, old)


# --------------------------------------------------------------------------
# monitored VM objects
# --------------------------------------------------------------------------

class BudgetExceeded(BaseException):
    """Logical step budget exhausted (bounded-progress restatement of
    termination). Not an Exception so that nothing but the VM's own
    `except BaseException` can swallow it — and the monitor re-raises."""


class Monitor:
    """Shared sink for all events of one instrumented run."""

    def __init__(self, budget: int = 0) -> None:
        self.budget = budget          # max dispatch+read events, 0 = unlimited
        self.steps = 0
        self.exhausted = False
        self.reads = 0
        self.appends = 0
        self.dispatches = 0
        self.events: list = []        # property-specific event log
        self.problems: list = []      # (key, description) invariant breaches
        self.max_stack_len = 0
        self.max_item_size = 0
        self.tape_seq = 0
        self.record_reads = False
        self.record_dispatch = False
        # (max_items, max_item_size, callstack_limit) the CALLER configured;
        # when set, the hooks judge against these and not against whatever
        # the Stack / Tape objects were constructed with
        self.configured = None

    def step(self) -> None:
        self.steps += 1
        if self.budget and self.steps > self.budget:
            self.exhausted = True
            raise BudgetExceeded()

    def problem(self, key: str, desc: str) -> None:
        if len(self.problems) < 50:
            self.problems.append((key, desc))


_current: Monitor | None = None


def make_classes():
    """Build MonTape / MonStack against the live classes (after bootstrap)."""
    from tapescript import classes

    class MonDeque(collections.deque):
        mon: Monitor | None = None
        limits = (None, None)

        def _check_in(self, item, op):
            mon = _current
            if mon is None:
                return
            mon.appends += 1
            max_items, max_size = self.limits
            if mon.configured is not None:
                max_items, max_size = mon.configured[:2]
            if type(item) is not bytes:
                mon.problem('stack-item-not-bytes',
                            f'{op} stored a {type(item).__name__}')
            else:
                if len(item) > mon.max_item_size:
                    mon.max_item_size = len(item)
                if max_size is not None and len(item) > max_size:
                    mon.problem('stack-item-over-size',
                                f'{op} stored {len(item)} bytes > {max_size}')

        def append(self, item):
            mon = _current
            if mon is not None and self.maxlen is not None \
                    and len(self) >= self.maxlen:
                mon.problem('stack-append-at-maxlen',
                            f'append with len={len(self)} == maxlen '
                            '(deque silently drops the bottom item)')
            self._check_in(item, 'append')
            super().append(item)
            if mon is not None:
                n = len(self)
                if n > mon.max_stack_len:
                    mon.max_stack_len = n
                lim = self.limits[0] if mon.configured is None \
                    else mon.configured[0]
                if lim is not None and n > lim:
                    mon.problem('stack-over-max-items',
                                f'len {n} > max_items {lim}')

        def appendleft(self, item):
            mon = _current
            if mon is not None:
                mon.problem('stack-appendleft', 'appendleft used on the stack')
            self._check_in(item, 'appendleft')
            super().appendleft(item)

        def extend(self, items):
            for it in items:
                self.append(it)

        def insert(self, i, item):
            self._check_in(item, 'insert')
            super().insert(i, item)

        def __setitem__(self, i, item):
            self._check_in(item, 'setitem')
            super().__setitem__(i, item)

    class MonStack(classes.Stack):
        def __init__(self, max_items: int = 1024, max_item_size: int = 1024):
            super().__init__(max_items, max_item_size)
            # the monitored deque keeps whatever bound the class itself gave
            # its deque (setting our own would repair a wrong one unseen)
            real = getattr(self, 'deque', None)
            d = MonDeque(real if real is not None else (),
                         maxlen=real.maxlen if real is not None
                         else self.max_items)
            d.limits = (max_items, max_item_size)
            self.deque = d

    class MonTape(classes.Tape):
        """Every read / move / direct pointer write is observed."""

        def __post_init__(self):
            # whatever the class itself does after construction still happens
            sup = getattr(super(), '__post_init__', None)
            if sup is not None:
                sup()
            mon = _current
            if mon is not None:
                mon.tape_seq += 1
                object.__setattr__(self, '_mon_id', mon.tape_seq)
            else:
                object.__setattr__(self, '_mon_id', 0)

        def read(self, size, move_pointer=True):
            mon = _current
            if mon is not None:
                mon.reads += 1
                mon.step()
                if type(size) is not int or size < 0:
                    mon.problem('tape-negative-read', f'read({size!r})')
                before = self.pointer
            out = super().read(size, move_pointer)
            if mon is not None:
                if self.pointer < before:
                    mon.problem('tape-moved-backwards',
                                f'read({size}) moved {before}->{self.pointer}')
                if self.pointer > len(self.data):
                    mon.problem('tape-past-end',
                                f'pointer {self.pointer} > {len(self.data)}')
                if mon.record_reads:
                    mon.events.append(('read', self._mon_id, before, size))
            return out

        def move_pointer(self, n):
            mon = _current
            if mon is not None and (type(n) is not int or n < 0):
                mon.problem('tape-negative-move', f'move_pointer({n!r})')
            return super().move_pointer(n)

        def __setattr__(self, name, value):
            if name == 'pointer':
                mon = _current
                if mon is not None and 'data' in self.__dict__:
                    if type(value) is not int or value < 0 \
                            or value > len(self.data):
                        mon.problem('tape-pointer-out-of-range',
                                    f'pointer set to {value!r} '
                                    f'(len {len(self.data)})')
            object.__setattr__(self, name, value)

    return MonDeque, MonStack, MonTape


class CpuBudgetExceeded(BaseException):
    """raised inside a run that has used more CPU time than any terminating
    run of the workload comes near"""


class cpu_budget:
    """`with cpu_budget(sec) as w:` - a LOGICAL bound on one run: the timer
    counts the CPU time this process spends in user mode (ITIMER_VIRTUAL), not
    wall-clock time, so machine load does not move it. When it fires it
    raises CpuBudgetExceeded in the body and keeps re-firing every 50 ms of
    CPU (the VM's TRY / run_auth_scripts swallow BaseException). `w.fired`
    tells the caller; the exception itself never leaves the block."""

    def __init__(self, sec: float) -> None:
        self.sec = sec
        self.fired = 0
        self.used = 0.0

    def _handler(self, signum, frame):
        self.fired += 1
        raise CpuBudgetExceeded()

    def __enter__(self):
        import signal
        import time
        self._t0 = time.process_time()
        self._old = signal.signal(signal.SIGVTALRM, self._handler)
        signal.setitimer(signal.ITIMER_VIRTUAL, self.sec, 0.05)
        return self

    def __exit__(self, et, ev, tb):
        import signal
        import time
        signal.setitimer(signal.ITIMER_VIRTUAL, 0, 0)
        signal.signal(signal.SIGVTALRM, self._old or signal.SIG_DFL)
        self.used = time.process_time() - self._t0
        return et is not None and issubclass(et, CpuBudgetExceeded)


class RecDict(dict):
    """Cache that logs every mutation (key, key type, op) in order."""

    def __init__(self, *a, **kw):
        super().__init__(*a, **kw)
        self.log: list = []

    def __setitem__(self, k, v):
        self.log.append(('set', k, _snap(v)))
        super().__setitem__(k, v)

    def __delitem__(self, k):
        self.log.append(('del', k, None))
        super().__delitem__(k)

    def pop(self, k, *d):
        self.log.append(('pop', k, None))
        return super().pop(k, *d)

    def popitem(self):
        k, v = super().popitem()
        self.log.append(('popitem', k, None))
        return k, v

    def update(self, *a, **kw):
        tmp = dict(*a, **kw)
        for k, v in tmp.items():
            self[k] = v

    def setdefault(self, k, d=None):
        if k not in self:
            self[k] = d
        return self[k]

    def clear(self):
        self.log.append(('clear', None, None))
        super().clear()

    def __ior__(self, other):
        self.update(other)
        return self


def _snap(v):
    if isinstance(v, (list, tuple)):
        return [bytes(x) if isinstance(x, (bytes, bytearray)) else x for x in v]
    return v


# --------------------------------------------------------------------------
# injection
# --------------------------------------------------------------------------

_classes = None


def classes():
    global _classes
    if _classes is None:
        _classes = make_classes()
    return _classes


@contextlib.contextmanager
def injected(mon: Monitor, trace_dispatch: bool = False, frames: bool = False):
    """Activate the monitors: functions.Tape/Stack and parsing.Tape are the
    monitored classes, optionally every opcodes/nopcodes entry is wrapped by
    the dispatch tracer and the control-flow entry points by the frame
    tracker. Originals are restored on exit."""
    global _current
    functions, parsing, tools, cls, _ = env.mods()
    MonDeque, MonStack, MonTape = classes()
    saved = {
        'fT': functions.Tape, 'fS': functions.Stack, 'pT': parsing.Tape,
    }
    saved_ops = None
    saved_frames = {}
    prev = _current
    _current = mon
    functions.Tape = MonTape
    functions.Stack = MonStack
    parsing.Tape = MonTape
    try:
        if trace_dispatch or frames:
            saved_ops = (dict(functions.opcodes), dict(functions.nopcodes))
        if trace_dispatch:
            for table in (functions.opcodes, functions.nopcodes):
                for code, (name, fn) in list(table.items()):
                    table[code] = (name, _wrap_op(code, name, fn, mon))
        if frames:
            for name in ('run_tape', 'OP_CALL', 'OP_EVAL', 'OP_LOOP', 'OP_IF',
                         'OP_IF_ELSE', 'OP_TRY_EXCEPT'):
                saved_frames[name] = getattr(functions, name)
            _install_frames(functions, mon, saved_frames)
        yield mon
    finally:
        _current = prev
        functions.Tape = saved['fT']
        functions.Stack = saved['fS']
        parsing.Tape = saved['pT']
        if saved_ops is not None:
            functions.opcodes.clear()
            functions.opcodes.update(saved_ops[0])
            functions.nopcodes.clear()
            functions.nopcodes.update(saved_ops[1])
        for name, fn in saved_frames.items():
            setattr(functions, name, fn)


def _wrap_op(code, name, fn, mon: Monitor):
    def traced(tape, stack, cache):
        mon.dispatches += 1
        mon.step()
        if mon.record_dispatch:
            ev = ['op', getattr(tape, '_mon_id', -1), tape.pointer - 1, name,
                  mon.depth_now() if hasattr(mon, 'depth_now') else 0, None]
            mon.events.append(ev)
            hook = getattr(mon, 'on_dispatch', None)
            if hook is not None:
                hook(code, name, tape, stack, cache)
            try:
                fn(tape, stack, cache)
            except BudgetExceeded:
                raise
            except BaseException:
                ev[5] = 'raised'
                raise
            finally:
                after = getattr(mon, 'after_dispatch', None)
                if after is not None:
                    after(code, name, tape, stack, cache)
        else:
            hook = getattr(mon, 'on_dispatch', None)
            if hook is not None:
                hook(code, name, tape, stack, cache)
            try:
                fn(tape, stack, cache)
            finally:
                after = getattr(mon, 'after_dispatch', None)
                if after is not None:
                    after(code, name, tape, stack, cache)
    traced.__name__ = fn.__name__
    traced.__wrapped__ = fn
    return traced


def _install_frames(functions, mon: Monitor, saved) -> None:
    """Live CALL/EVAL chain depth and iterations per LOOP invocation.

    chain: number of CALL / EVAL activations currently on the Python stack —
    what the call-stack limit bounds. loop iterations: OP_LOOP hands the same
    body tape to run_tape once per iteration; the first run_tape call made from
    inside an OP_LOOP activation binds that activation's marker to the body
    tape, every further call with the same tape is one more iteration."""
    mon.chain = 0
    mon.max_chain = 0
    mon.loop_stack = []
    mon.max_loop_iters = 0
    mon.run_tape_calls = 0
    mon.py_depth = 0
    mon.max_py_depth = 0
    orig_run_tape = saved['run_tape']
    orig_call, orig_eval = saved['OP_CALL'], saved['OP_EVAL']
    orig_loop = saved['OP_LOOP']

    def run_tape(tape, stack, cache, additional_flags={}):
        mon.run_tape_calls += 1
        if mon.loop_stack:
            top = mon.loop_stack[-1]
            if top[0] is None:
                top[0] = tape
                top[1] = 1
            elif top[0] is tape:
                top[1] += 1
            if top[0] is tape:
                if top[1] > mon.max_loop_iters:
                    mon.max_loop_iters = top[1]
                if top[1] > top[2]:
                    mon.problem('loop-over-limit',
                                f'loop body run {top[1]} times, limit {top[2]}')
                    if top[1] > top[2] + 3:
                        raise BudgetExceeded()
        if mon.chain_marks and not mon.chain_marks[-1][0]:
            m = mon.chain_marks[-1]
            m[0] = True
            mon.chain += 1
            if mon.chain > mon.max_chain:
                mon.max_chain = mon.chain
            if mon.chain > m[2]:
                mon.problem('chain-over-limit',
                            f'{m[1]} chain depth {mon.chain} > limit {m[2]}')
                if mon.chain > m[2] + 3:
                    raise BudgetExceeded()
        mon.py_depth += 1
        if mon.py_depth > mon.max_py_depth:
            mon.max_py_depth = mon.py_depth
        try:
            return orig_run_tape(tape, stack, cache, additional_flags)
        finally:
            mon.py_depth -= 1

    mon.chain_marks = []

    def chain_wrap(orig, kind):
        def op(tape, stack, cache):
            # an activation counts once it hands its callee to run_tape (the
            # op's own limit check may still refuse it before that)
            mark = [False, kind, tape.callstack_limit
                    if mon.configured is None else mon.configured[2]]
            mon.chain_marks.append(mark)
            try:
                return orig(tape, stack, cache)
            finally:
                mon.chain_marks.pop()
                if mark[0]:
                    mon.chain -= 1
        op.__name__ = orig.__name__
        op.__wrapped__ = orig
        return op

    def op_loop(tape, stack, cache):
        mon.loop_stack.append([None, 0, tape.callstack_limit
                               if mon.configured is None
                               else mon.configured[2]])
        try:
            return orig_loop(tape, stack, cache)
        finally:
            mon.loop_stack.pop()
    op_loop.__wrapped__ = orig_loop

    functions.run_tape = run_tape
    functions.OP_CALL = chain_wrap(orig_call, 'CALL')
    functions.OP_EVAL = chain_wrap(orig_eval, 'EVAL')
    functions.OP_LOOP = op_loop
    # the dispatch table holds the original function objects: point the
    # entries at the wrappers too (restored by injected()).
    for code, (name, fn) in list(functions.opcodes.items()):
        base = getattr(fn, '__wrapped__', fn)
        for nm in ('OP_CALL', 'OP_EVAL', 'OP_LOOP'):
            if base is saved[nm]:
                new = getattr(functions, nm)
                if fn is base:
                    functions.opcodes[code] = (name, new)
                else:
                    functions.opcodes[code] = (
                        name, _wrap_op(code, name, new, mon))
