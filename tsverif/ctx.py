"""Per-worker observation collector. Everything a check reports — counts,
tables, samples, violations — goes through one Ctx so that the driver can
aggregate shards and write evidence from measured numbers only."""
from __future__ import annotations
import hashlib
import random
from . import jsonx

MAX_VIOL_PER_KEY = 4
MAX_SAMPLES = 6


def case_rng(seed: int, prop: str, shard, index) -> random.Random:
    h = hashlib.sha256(f'{seed}|{prop}|{shard}|{index}'.encode()).digest()
    return random.Random(int.from_bytes(h, 'big'))


def digest(obj) -> bytes:
    return hashlib.sha256(jsonx.dumps(obj, sort_keys=True).encode()).digest()[:8]


class Ctx:
    def __init__(self, prop: str, tier: str, seed: int, shard) -> None:
        self.prop = prop
        self.tier = tier
        self.seed = seed
        self.shard = shard
        self.evaluations = 0
        self.counters: dict[str, int] = {}
        self.maxes: dict[str, int] = {}
        self.tables: dict[str, dict[str, int]] = {}
        self.samples: list = []
        self.violations: list = []
        self.viol_counts: dict[str, int] = {}
        self.nontrivial: set[bytes] = set()
        self.inconclusive: list[str] = []
        self.exhaustive_parts: list[str] = []

    # -- generation helpers
    def rng(self, index) -> random.Random:
        return case_rng(self.seed, self.prop, self.shard, index)

    # -- observations
    def count(self, name: str, n: int = 1) -> None:
        self.counters[name] = self.counters.get(name, 0) + n

    def max(self, name: str, v: int) -> None:
        if v > self.maxes.get(name, -1 << 62):
            self.maxes[name] = v

    def tab(self, table: str, key, n: int = 1) -> None:
        t = self.tables.setdefault(table, {})
        key = str(key)
        t[key] = t.get(key, 0) + n

    def evaluated(self, n: int = 1) -> None:
        self.evaluations += n

    def mark_nontrivial(self, obj) -> None:
        """obj: canonical description of the case (or its 8-byte digest)."""
        self.nontrivial.add(obj if isinstance(obj, bytes) and len(obj) == 8
                            else digest(obj))

    def sample(self, case, every: int = 1) -> None:
        if len(self.samples) < MAX_SAMPLES:
            self.samples.append(case)

    def exhaustive(self, what: str) -> None:
        if what not in self.exhaustive_parts:
            self.exhaustive_parts.append(what)

    def inconclusive_because(self, reason: str) -> None:
        if reason not in self.inconclusive and len(self.inconclusive) < 20:
            self.inconclusive.append(reason)

    def violation(self, key: str, what: str, case, expected=None,
                  observed=None, extra=None) -> None:
        """key: mechanism key computed from the structure of the witness."""
        self.viol_counts[key] = self.viol_counts.get(key, 0) + 1
        if self.viol_counts[key] <= MAX_VIOL_PER_KEY:
            self.violations.append({
                'property': self.prop, 'key': key, 'what': what,
                'case': case, 'expected': expected, 'observed': observed,
                'extra': extra, 'seed': self.seed, 'shard': self.shard,
            })

    # -- serialisation
    def to_dict(self) -> dict:
        return {
            'prop': self.prop, 'shard': self.shard,
            'evaluations': self.evaluations,
            'counters': self.counters, 'maxes': self.maxes,
            'tables': self.tables, 'samples': self.samples,
            'violations': self.violations, 'viol_counts': self.viol_counts,
            'inconclusive': self.inconclusive,
            'exhaustive_parts': self.exhaustive_parts,
            'nontrivial': b''.join(sorted(self.nontrivial)),
        }
