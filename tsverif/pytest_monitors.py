"""pytest plugin: the repository's own test-suite as a workload under the
Tape / Stack invariant monitors (used by C07; `-p tsverif.pytest_monitors` with
PYTHONPATH=/verif and the repository copy as working directory).

The suite's verdicts are not looked at — only what the monitors observed while
the tests drove the VM, the compiler and the builders end to end. Nothing is
pinned: the tests see the real clock and entropy.
"""
import json
import os
import sys

from . import instr

MON = instr.Monitor()
REPORT = {'problems': [], 'tests': 0}
_cm = None


def pytest_sessionstart(session):
    global _cm
    sys.path.insert(0, os.getcwd())
    import tapescript
    from . import env
    here = os.path.realpath(tapescript.__file__)
    if not here.startswith(os.path.realpath(os.getcwd()) + os.sep):
        raise RuntimeError(f'tapescript imported from {here}')
    env._ts = tapescript             # the package as the suite imports it
    _cm = instr.injected(MON)
    _cm.__enter__()


def pytest_runtest_teardown(item, nextitem):
    REPORT['tests'] += 1
    for k, d in MON.problems:
        if len(REPORT['problems']) < 50:
            REPORT['problems'].append([item.nodeid, k, d])
    MON.problems.clear()


def pytest_sessionfinish(session, exitstatus):
    if _cm is not None:
        _cm.__exit__(None, None, None)
    REPORT.update(reads=MON.reads, appends=MON.appends,
                  max_stack=MON.max_stack_len, max_item=MON.max_item_size)
    with open(os.environ['TSVERIF_PYTEST_REPORT'], 'w') as f:
        json.dump(REPORT, f)
