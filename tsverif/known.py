"""KNOWN_FINDINGS.txt reader. Read-only at run time.

    open:  property=C16 key=<mechanism-key> <what fails, minimal input>
    fixed: property=C01 <commit> <what failed>

Only `open:` lines suppress anything, and only a violation whose mechanism key
(computed by the check from the structure of the witness) equals the line's key.
"""
from __future__ import annotations
import os

PATH = os.path.join(os.path.dirname(os.path.dirname(os.path.abspath(__file__))),
                    'KNOWN_FINDINGS.txt')


def load_open() -> dict:
    out = {}
    if not os.path.exists(PATH):
        return out
    with open(PATH) as f:
        for line in f:
            line = line.strip()
            if not line.startswith('open:'):
                continue
            rest = line[len('open:'):].split()
            prop = key = None
            desc = []
            for tok in rest:
                if tok.startswith('property=') and prop is None:
                    prop = tok[len('property='):]
                elif tok.startswith('key=') and key is None:
                    key = tok[len('key='):]
                else:
                    desc.append(tok)
            if prop and key:
                out[(prop, key)] = ' '.join(desc)
    return out
