"""C06 — every instruction behaves as the language specification says.

Differential monitor: the real run_script (uninstrumented, clock and entropy
pinned) against the reference interpreter ref/vm.py written from docs.md /
language_spec.md. Equal -> held; different -> violation unless the model
answered UNSPECIFIED (skipped and counted). Comparison is exact on the stack
and on byte-keyed cache entries; values the model declares opaque (error text,
adapter nonces) are compared by shape.
"""
from __future__ import annotations
import copy
import hashlib

from .. import env
from ..gen import vmprogs
from ..ref import isa, vm

ID = 'C06'
RULE = ('programs from (i) a stack-aware grammar over the full opcode table '
        'with nesting <= 4 through IF / IF_ELSE / TRY / EXCEPT / LOOP / '
        'DEF+CALL / EVAL / MERKLEVAL / TAPROOT and boundary-biased operands, '
        '(ii) byte-level mutations of (i) (operand / count +-1, deletion, '
        'duplication, truncation), (iii) raw opcode-biased bytes; x initial '
        'caches (sigfields, timestamp, typed str values, raw / list byte-keyed '
        'entries) x flags (eval_return, disallow_OP_EVAL, thresholds, flags '
        '0..10) x limits. distinct = by (program, cache, configuration); '
        'non-trivial = >= 3 instructions executed and (a control construct '
        'entered or an error raised below top level)')
ASSUMPTIONS = [
    'the reference VM transcribes docs.md / language_spec.md (DESIGN.md '
    'Appendix A); it is partial: UNSPECIFIED cases are skipped and counted',
    'libsodium called directly is a trusted primitive of the model',
    'on an error outcome only the fact of the error is compared (the state '
    'left behind by a failed script is not specified)',
]
NSH = 16
NPROG = {'quick': 128_000, 'thorough': 4_000_000}
NOW = 1_700_000_000
FLOOR = {'quick': 30, 'thorough': 50}
NOT_FLOORED = {'OP_SET_FLAG', 'OP_UNSET_FLAG'}

CONTRACT = vmprogs.ReadOnlyContract()
CONTRACTS = {vmprogs.CID: CONTRACT, vmprogs.TID: CONTRACT}


# embedder plugins used by both runs (pure functions of what they are given)
def ext_rehash(tape, stack, cache):
    """idempotent signature extension: sigfield7 := sha256(sigfield1)"""
    cache['sigfield7'] = hashlib.sha256(cache.get('sigfield1', b'')).digest()


def ext_count(tape, stack, cache):
    """NOT idempotent: every run appends one byte to sigfield6 - the signed
    message then depends on exactly how often the extensions ran"""
    cache['sigfield6'] = cache.get('sigfield6', b'') + b'+'


def ct_prefix(tape, stack, cache):
    t, fld = stack.peek(0), stack.peek(1)
    return fld[:len(t)] == t and len(t) > 0


def ct_reverse(tape, stack, cache):
    return stack.peek(0) == stack.peek(1)[::-1]


PLUGSETS = [
    {},
    {'signature_extensions': [ext_rehash]},
    {'signature_extensions': [ext_count]},
    {'signature_extensions': [ext_rehash, ext_count]},
    {'check_template': [ct_prefix]},
    {'check_template': [ct_prefix, ct_reverse]},
    {'signature_extensions': [ext_count], 'check_template': [ct_reverse]},
]


def shards(tier, seed):
    return [{'shard': i, 'of': NSH} for i in range(NSH)]


def gen_case(rng):
    r = rng.random()
    g = vmprogs.Gen(rng, maxdepth=rng.choice((1, 2, 3, 4, 4)))
    if r < 0.62:
        prog, kind = g.program(), 'grammar'
    elif r < 0.9:
        prog, kind = vmprogs.mutate(rng, g.program()), 'mutated'
    else:
        prog, kind = vmprogs.raw(rng), 'raw'
    flags = {}
    r = rng.random()
    if r < 0.1:
        flags['eval_return'] = True
    elif r < 0.15:
        flags['disallow_OP_EVAL'] = True
    elif r < 0.3:
        for f in range(11):
            if rng.random() < 0.4:
                # flag values are int or bool (docs.md): off is False or 0
                flags[f] = rng.choice((True, False, False, 0, 0, 1))
    elif r < 0.38:
        flags['ts_threshold'] = rng.choice((0, -1, 1, 10, 61, 10**6))
        flags['epoch_threshold'] = rng.choice((0, 1, 10, 61))
    lim = {'max_items': 1024, 'max_item_size': 1024, 'limit': 128}
    if rng.random() < 0.12:
        lim = {'max_items': rng.choice((3, 8, 1024)),
               'max_item_size': rng.choice((33, 64, 1024)),
               'limit': rng.choice((1, 2, 5, 128))}
    return {'prog': prog, 'kind': kind, 'cache': vmprogs.initial_cache(rng),
            'flags': flags, 'plugset': rng.randrange(1, len(PLUGSETS))
            if rng.random() < 0.3 else 0, **lim}


# CPU seconds (user mode, this process) one run of the real VM may use: the
# reference interpreter ends every one of these programs, and on the
# unchanged tree the slowest real run stays below a hundredth of it
CPU_BUDGET = 30.0
NONTERMINATING = [0]


def run_real(case):
    functions = env.mods()[0]
    env.Clock.now = NOW
    env.Entropy.reset(b'c06')
    from .. import instr
    watch = instr.cpu_budget(CPU_BUDGET)
    try:
        with watch:
            _, stack, cache = functions.run_script(
                case['prog'], copy.deepcopy(case['cache']), dict(CONTRACTS),
                dict(case['flags']),
                {k: list(v) for k, v in
                 PLUGSETS[case.get('plugset', 0)].items()},
                case['max_items'], case['max_item_size'], case['limit'])
    except BaseException as e:
        if watch.fired:
            return 'does-not-end', type(e).__name__, None
        return 'error', type(e).__name__, None
    if watch.fired:
        return 'does-not-end', None, None
    return 'ok', list(stack.deque), {k: v for k, v in cache.items()
                                     if isinstance(k, bytes)}


def run_model(case):
    counter = [0]

    def entropy(n):
        out = env.Entropy.peek_stream(b'c06', counter[0], n)
        counter[0] += 1
        return out
    cfg = vm.Config(case['max_items'], case['max_item_size'], case['limit'],
                    case['flags'], CONTRACTS, NOW, entropy,
                    PLUGSETS[case.get('plugset', 0)])
    cache = {'timestamp': NOW, **copy.deepcopy(case['cache'])}
    status, stack, c, m = vm.run(case['prog'], cache, cfg)
    if status == 'ok':
        c = {k: v for k, v in c.items() if isinstance(k, bytes)}
    return status, stack, c, m


def item_eq(real, model) -> bool:
    if not isinstance(real, bytes):
        return False
    if vm.is_opaque(model):
        return model.tag == 'error-text' or len(real) == len(model)
    if real == model:
        return True
    if isinstance(model, vm.IntItem) and real and \
            isa.int_dec(real) == isa.int_dec(model):
        return True
    return False


def value_eq(real, model) -> bool:
    rl = isinstance(real, (list, tuple))
    ml = isinstance(model, (list, tuple))
    if rl != ml:
        return False
    if rl:
        return len(real) == len(model) and all(
            item_eq(a, b) for a, b in zip(real, model))
    return item_eq(real, model)


def dg(case) -> bytes:
    return hashlib.blake2b(
        case['prog'] + repr((sorted(map(repr, case['cache'].items())),
                             sorted(map(repr, case['flags'].items())),
                             case['max_items'], case['max_item_size'],
                             case['limit'])).encode(), digest_size=8).digest()


def judge(ctx, case):
    ctx.evaluated()
    ctx.tab('kind', case['kind'])
    ctx.tab('plugset', case.get('plugset', 0))
    try:
        mstatus, mstack, mcache, m = run_model(case)
    except vm.Unspecified as u:
        ctx.count('unspecified_skipped')
        ctx.tab('unspecified_reason', str(u)[:60])
        return
    except RecursionError:
        ctx.count('unspecified_skipped')
        return
    if NONTERMINATING[0] >= 3:
        # three runs of this shard did not end: the verdict is in, and every
        # further such run would cost the whole CPU budget again
        ctx.count('skipped.after_three_nonterminating_runs')
        return
    rstatus, rstack, rcache = run_real(case)
    ctx.tab('outcome', f'real={rstatus} model={mstatus}')
    if rstatus == 'does-not-end':
        NONTERMINATING[0] += 1
        ctx.violation('vm-run-does-not-end', f'the real VM used {CPU_BUDGET} '
                      's of CPU time on a program the reference interpreter '
                      f'ends ({mstatus}): a loop inside an instruction that '
                      'no limit stops', case, mstatus, 'no end')
        return
    diff = None
    if rstatus != mstatus:
        diff = ('outcome', mstatus, f'{rstatus} {rstack if rstatus == "error" else ""}')
    elif rstatus == 'ok':
        if len(rstack) != len(mstack) or not all(
                item_eq(a, b) for a, b in zip(rstack, mstack)):
            diff = ('stack', [bytes(x).hex()[:40] for x in mstack[-6:]],
                    [bytes(x).hex()[:40] for x in rstack[-6:]])
        elif set(rcache) != set(mcache):
            diff = ('cache-keys', sorted(map(bytes.hex, mcache)),
                    sorted(map(bytes.hex, rcache)))
        else:
            for k in mcache:
                if not value_eq(rcache[k], mcache[k]):
                    diff = ('cache-value:' + k.hex(), repr(mcache[k])[:120],
                            repr(rcache[k])[:120])
                    break
    if diff is not None:
        key = 'vm-differs-' + diff[0].split(':')[0]
        if m.return_in_loop:
            key = 'stale-return-after-loop'
        ctx.violation(key, f'real VM and reference model disagree on '
                      f'{diff[0]} ({case["kind"]} program, '
                      f'{len(case["prog"])} bytes)', case, diff[1], diff[2])
        return
    for name, cnt in m.executed.items():
        ctx.tab('op_executed' if mstatus == 'ok' else 'op_executed_err', name,
                cnt)
    ctx.max('max_nesting_seen', m.max_nesting)
    if mstatus == 'ok':
        ctx.tab('nesting_ok', min(m.max_nesting, 5))
    if sum(m.executed.values()) >= 3 and (m.max_nesting >= 1
                                          or m.errors_below_top):
        ctx.mark_nontrivial(dg(case))


def recursion_error_case(rng):
    """a function that calls itself inside a TRY; an INNER activation raises
    after some instructions, an outer activation catches it and must go on
    with its own next instruction (marker pushes before and after the failing
    point make a lost place visible). The nesting depth at which it happens
    is set by the call-stack limit."""
    P, O = vmprogs.P, vmprogs.O
    h = rng.choice((0, 3, 200))
    key = rng.choice((b'q', b'cnt'))
    mark = lambda t: P(t + bytes([rng.randrange(256)]))
    wrap_call = rng.choice((
        lambda c: isa.TRY(c, b''),
        lambda c: isa.TRY(c, P(b'caught') + O('POP0')),
        lambda c: isa.TRY(O('TRUE') + isa.IF(c), b''),
        lambda c: isa.TRY(isa.TRY(c + O('FALSE') + O('VERIFY'),
                                  O('FALSE') + O('VERIFY')), b'')))
    fail = rng.choice((
        # raises in the activation that gets here FIRST (the innermost one
        # that runs), passes in the ones that come later
        O('READ_CACHE_SIZE') + bytes([len(key)]) + key + O('TRUE')
        + O('WRITE_CACHE') + bytes([len(key)]) + key + b'\x01' + O('VERIFY'),
        O('READ_CACHE_SIZE') + bytes([len(key)]) + key + O('TRUE')
        + O('WRITE_CACHE') + bytes([len(key)]) + key + b'\x01'
        + isa.push(b'\x01') + O('EQUAL_VERIFY')))
    body = wrap_call(isa.CALL(h)) + mark(b'M') + fail + mark(b'Z') \
        + rng.choice((b'', O('DEPTH') + O('POP0')))
    prog = isa.DEF(h, body) + isa.CALL(h) + mark(b'end')
    return {'prog': prog, 'kind': 'recursion-error', 'cache': {},
            'flags': {}, 'plugset': 0, 'max_items': 1024,
            'max_item_size': 1024, 'limit': rng.choice((2, 2, 3, 4))}


def run_shard(spec, ctx):
    i, of = spec['shard'], spec['of']
    n = NPROG[ctx.tier] // of
    for j in range(max(4, n // 400)):
        judge(ctx, recursion_error_case(ctx.rng(('rec', j))))
    for j in range(n):
        case = gen_case(ctx.rng(j))
        judge(ctx, case)
        if j % 1500 == 0 and len(case['prog']) < 60:
            ctx.sample({'prog': case['prog'], 'flags': case['flags'],
                        'kind': case['kind']})
    env.Clock.now = env.NOW0


def finalize(agg, tier):
    out = []
    ex = agg['tables'].get('op_executed', {})
    floor = FLOOR[tier]
    low = [n for n in isa.NAMES if n not in NOT_FLOORED
           and ex.get(n, 0) < floor]
    if low:
        out.append(f'opcodes executed without error fewer than {floor} '
                   f'times: {low[:12]}')
    if ex.get('NOP', 0) < floor:
        out.append('NOP codes executed too rarely')
    nest = agg['tables'].get('nesting_ok', {})
    if sum(v for k, v in nest.items() if int(k) >= 3) < 20:
        out.append('fewer than 20 successful programs with nesting >= 3')
    un = agg['counters'].get('unspecified_skipped', 0)
    if agg['evaluations'] and un / agg['evaluations'] > 0.30:
        out.append(f'UNSPECIFIED share {un}/{agg["evaluations"]} > 30%')
    return out


def replay(case, ctx):
    judge(ctx, case)
