"""C15 — hash- and point-time-locked contracts: claim and refund paths are
exact.

Locks are created with the verifier clock pinned at now0 and spent at a chosen
(now, t); the oracle is the predicate of the statement.
"""
from __future__ import annotations
import hashlib

from .. import env
from ..gen import auth as _auth
from ..ref import isa, sigmsg

ID = 'C15'
BUILDER_DEFAULTS = True     # tools.* goes through tsverif/omit.py
RULE = ('scenarios = receiver / refund / outsider seeds x preimage length '
        '1..64 x digest size x timeout {0,1,60,86400,10^6,5*10^8,3*10^9,2^40} x t in {deadline-1, '
        'deadline, deadline+1} x now in {t-61, t-60, t-59, t, t+10^6} x tweak '
        'scalars x sigfields x (flag, allowed); six lock kinds (htlc/htlc2 x '
        'sha256/shake256, ptlc, ptlc+tweak) x four witness kinds, matching '
        'pairs judged exactly, foreign-key cross-pairings must reject. '
        'distinct = by (lock, witness, t, now); non-trivial = boundary time, '
        'wrong key, wrong preimage or cross-pairing'
        ' [plus a configured slack threshold (process-wide / per run), script witnesses, flag-not-permitted claim and refund, registers-off and extension processes, locks built again at a later creation time]')
ASSUMPTIONS = [
    'verifier clock pinned; default ts_threshold = 60',
    "the refund witness's dummy preimage differs from the real preimage",
    'tweak scalars are clamped 32-byte strings (T = t*G formed through the '
    'API)',
    'same-key cross-layout pairings are counted, not judged',
]
NSH = 16
NSCEN = {'quick': 2560, 'thorough': 120_000}
NOW0 = 1_650_000_000


def shards(tier, seed):
    return [{'shard': i, 'of': NSH} for i in range(NSH)]


def rbytes(rng, n):
    return bytes(rng.getrandbits(8) for _ in range(n))


class Cfg:
    """the slack threshold the verifier configured and how: 'default' (60),
    'global' (functions.flags['ts_threshold']), 'per-run' (additional_flags
    of run_script over witness + lock; the witnesses here only push data)"""
    slack = 60
    mode = 'default'


def auth(scripts, cache):
    functions = env.mods()[0]
    try:
        ss = [bytes(s) for s in scripts]
        if Cfg.mode == 'per-run':
            _, stack, _ = functions.run_script(
                b''.join(ss), dict(cache),
                additional_flags={'ts_threshold': Cfg.slack},
                **env.roomy_limits(*ss))
            return list(stack.deque) == [b'\xff']
        return functions.run_auth_scripts(ss, dict(cache),
                                          **env.roomy_limits(*ss))
    except BaseException as e:
        return e


def dg(*x) -> bytes:
    h = hashlib.blake2b(digest_size=8)
    for y in x:
        h.update(repr(y).encode())
    return h.digest()


def scenario(ctx, rng, j):
    functions, parsing, tools, _, _ = env.mods()
    t_ = tools
    R, F, X = rbytes(rng, 32), rbytes(rng, 32), rbytes(rng, 32)
    pR, pF = sigmsg.pubkey(R), sigmsg.pubkey(F)
    from ..gen import auth as _auth
    fields = _auth.sigfields(rng, must=(1,))
    allowed = rng.choice((0, 0, 2, 3, 0x12, 0x30, 0x82, 0xa5, 0xff))
    f = rng.choice([x for x in (0, 2, 0x10, 0x20, 0x80, 0x82, 0x12)
                    if not (x & ~allowed & 0xff)])
    a_hex, f_hex = f'{allowed:02x}', f'{f:02x}'
    pre = rbytes(rng, rng.choice((1, 2, 16, 20, 32, 33, 64)))
    wrong = rbytes(rng, rng.choice((1, len(pre))))
    if wrong == pre:
        wrong = bytes([pre[0] ^ 1]) + pre[1:]
    hs = rng.choice((1, 8, 16, 20, 32, 64))
    # ... and deadlines beyond 2^31 / 2^32 / 2^40 (five- and six-byte operands)
    timeout = rng.choice((0, 1, 60, 86400, 10**6, 10**6, 5 * 10**8,
                          3 * 10**9, 2**40))
    deadline = NOW0 + timeout
    t = deadline + rng.choice((-1, 0, 1, 1, 5000))
    sl = Cfg.slack
    now = rng.choice((t - sl - 1, t - sl, t - sl + 1, t, t, t + 10**6,
                      t - 61, t - 60, t - 59))
    in_time = t >= deadline and t - now < sl
    tweak = functions.clamp_scalar(rbytes(rng, 32), rng.random() < 0.5)
    if j % 10 == 7:
        # the tweak scalar is the receiver's OWN key scalar: the tweak point
        # repeats the receiver key (the point lock is then 2 * the key)
        tweak = functions.derive_key_from_seed(R)
        ctx.count('tweak_point_repeats_receiver_key')
    T = functions.derive_point_from_scalar(tweak)
    wrong_tweak = functions.clamp_scalar(rbytes(rng, 32))

    env.Clock.now = NOW0            # creation time of every lock
    kw = dict(timeout=timeout, sigflags=a_hex)
    makers = {
        'htlc_sha256': lambda: t_.make_htlc_sha256_lock(pR, pF, preimage=pre,
                                                        **kw),
        'htlc_shake256': lambda: t_.make_htlc_shake256_lock(
            pR, pF, preimage=pre, hash_size=hs, **kw),
        'htlc2_sha256': lambda: t_.make_htlc2_sha256_lock(pR, pF, preimage=pre,
                                                          **kw),
        'htlc2_shake256': lambda: t_.make_htlc2_shake256_lock(
            pR, pF, preimage=pre, hash_size=hs, **kw),
        'ptlc': lambda: t_.make_ptlc_lock(pR, pF, **kw),
        'ptlc_tweak': lambda: t_.make_ptlc_lock(pR, pF, T, **kw),
    }
    locks = {}
    for nm, mk_ in makers.items():
        try:
            locks[nm] = mk_()
        except Exception as e:
            # every argument is inside the documented domain (keys, 1..64
            # byte preimage, hash size, timeout >= 0, two hex digits of flags)
            ctx.evaluated()
            ctx.violation(f'tlc-builder-raised:{nm}', f'the {nm} lock builder '
                          'raises for arguments inside its documented domain',
                          {'name': 'builder-raised', 'kind': nm, 'pR': pR,
                           'pF': pF, 'pre': pre, 'hs': hs, 'T': T,
                           'timeout': timeout, 'sigflags': a_hex},
                          'a lock', f'{type(e).__name__}: {e}'[:160])
            return
    # digest-form construction must give the same lock
    if j % 5 == 0:
        d = hashlib.sha256(pre).digest()
        l2 = t_.make_htlc_sha256_lock(pR, pF, digest=d, **kw)
        ctx.evaluated()
        if bytes(l2) != bytes(locks['htlc_sha256']):
            ctx.violation('htlc-digest-form-differs', 'lock built from the '
                          'digest differs from the lock built from the '
                          'preimage', {'name': 'digest-form'})

    def judge(name, lock, wit, want, flds=fields, nontrivial=True,
              judged=True):
        ctx.evaluated()
        env.Clock.now = now
        got = auth([wit, lock], {**flds, 'timestamp': t})
        env.Clock.now = env.NOW0
        ctx.tab('pairing', name.split(':')[0])
        if not judged:
            ctx.count('pairings_counted_not_judged')
            return
        ctx.tab('expected', want)
        if (got is True) != want:
            key = ('tlc-accepts:' if got is True else 'tlc-rejects:') + name
            ctx.violation(key, f'{name}: verdict differs from the statement '
                          f'predicate (timeout={timeout}, t-deadline='
                          f'{t - deadline}, t-now={t - now})',
                          {'name': name, 'lock': bytes(lock),
                           'witness': bytes(wit), 'fields': flds, 't': t,
                           'now': now, 'want': want, 'slack': Cfg.slack,
                           'mode': Cfg.mode}, want, repr(got)[:80])
        elif nontrivial:
            ctx.mark_nontrivial(dg(name, bytes(lock), bytes(wit), t, now))

    for fam, mk in (('htlc', t_.make_htlc_witness),
                    ('htlc2', t_.make_htlc2_witness)):
        for hname in ('sha256', 'shake256'):
            lock = locks[f'{fam}_{hname}']
            L = f'{fam}_{hname}'
            # small digests can collide: decide "matches" by hashing
            if hname == 'sha256':
                coll = hashlib.sha256(wrong).digest() == \
                    hashlib.sha256(pre).digest()
            else:
                coll = hashlib.shake_256(wrong).digest(hs) == \
                    hashlib.shake_256(pre).digest(hs)
            if fam == 'htlc2':
                # the htlc2 layout commits to the keys by a digest as well
                # (20 bytes for sha256 locks, hash_size for shake256 locks): a
                # tiny hash_size lets unrelated keys collide by design
                ks = 20 if hname == 'sha256' else hs
                kd = [hashlib.shake_256(sigmsg.pubkey(z)).digest(ks)
                      for z in (R, F, X)]
                coll = coll or len(set(kd)) != 3
            if coll:
                ctx.count('skipped.digest_collision')
                continue
            judge(f'{L}:claim', lock, mk(R, pre, fields, f_hex), True,
                  nontrivial=(t - deadline) in (-1, 0, 1))
            judge(f'{L}:claim-wrong-preimage', lock,
                  mk(R, wrong, fields, f_hex), False)
            judge(f'{L}:claim-by-refund-key', lock,
                  mk(F, pre, fields, f_hex), False)
            judge(f'{L}:claim-by-outsider', lock, mk(X, pre, fields, f_hex),
                  False)
            judge(f'{L}:refund', lock, mk(F, wrong, fields, f_hex), in_time)
            judge(f'{L}:refund-by-receiver', lock,
                  mk(R, wrong, fields, f_hex), False)
            judge(f'{L}:refund-by-outsider', lock,
                  mk(X, wrong, fields, f_hex), False)
            f2 = dict(fields, sigfield1=fields['sigfield1'] + b'x')
            judge(f'{L}:claim-field-changed', lock,
                  mk(R, pre, fields, f_hex), False, flds=f2)
            # a witness is a script: without preimage and signature it opens
            # nothing, in front of the builder's claim it changes nothing
            # (not in the mode that runs witness + lock as one script)
            if j % 4 == 0 and Cfg.mode != 'per-run':
                alone, prefixes = _auth.script_witnesses(rng)
                for nm, w in alone:
                    judge(f'{L}:script-witness:{nm}', lock, w, False)
                for nm, w in prefixes:
                    judge(f'{L}:script-prefix:{nm}', lock,
                          w + bytes(mk(R, pre, fields, f_hex)), True)
            free = [b for b in range(8) if not (allowed >> b) & 1]
            if free:
                g = f | (1 << free[j % len(free)])
                judge(f'{L}:claim-flag-not-permitted', lock,
                      mk(R, pre, fields, f'{g:02x}'), False)
                judge(f'{L}:refund-flag-not-permitted', lock,
                      mk(F, wrong, fields, f'{g:02x}'), False)
    # the same builder call repeated at a later creation time: the deadline is
    # creation time + timeout of THAT call (nothing remembered from the first)
    if j % 4 == 0 and timeout >= 1:
        later = NOW0 + 5000 + timeout
        env.Clock.now = NOW0 + 5000
        for nm, mk_lock, mk_wit in (
                ('htlc_sha256', lambda: t_.make_htlc_sha256_lock(
                    pR, pF, preimage=pre, **kw),
                 lambda: t_.make_htlc_witness(F, wrong, fields, f_hex)),
                ('ptlc', lambda: t_.make_ptlc_lock(pR, pF, **kw),
                 lambda: t_.make_ptlc_refund_witness(F, fields, f_hex))):
            env.Clock.now = NOW0 + 5000
            lk2 = mk_lock()
            ctx.evaluated()
            for tt, want in ((later - 1, False), (later, True)):
                env.Clock.now = tt
                got = auth([mk_wit(), lk2], {**fields, 'timestamp': tt})
                if (got is True) != want:
                    ctx.violation(f'tlc-recreated-lock:{nm}', f'{nm} lock '
                                  'built again 5000 s later: refund at its own '
                                  f'deadline{"-1" if not want else ""} gives '
                                  f'{got!r}', {'name': 'recreated', 'lock':
                                               bytes(lk2), 'witness':
                                               bytes(mk_wit()), 'fields':
                                               fields, 't': tt, 'now': tt,
                                               'want': want}, want,
                                  repr(got)[:60])
                else:
                    ctx.mark_nontrivial(dg('recreated', nm, bytes(lk2), tt))
        env.Clock.now = env.NOW0
    # PTLC
    lock = locks['ptlc']
    judge('ptlc:claim', lock, t_.make_ptlc_witness(R, fields, sigflags=f_hex),
          True, nontrivial=(t - deadline) in (-1, 0, 1))
    if j % 4 == 0 and Cfg.mode != 'per-run':
        alone, prefixes = _auth.script_witnesses(rng)
        for nm, w in alone:
            judge(f'ptlc:script-witness:{nm}', lock, w, False)
        for nm, w in prefixes:
            judge(f'ptlc:script-prefix:{nm}', lock, w + bytes(
                t_.make_ptlc_witness(R, fields, sigflags=f_hex)), True)
    judge('ptlc:claim-by-refund-key', lock,
          t_.make_ptlc_witness(F, fields, sigflags=f_hex), False)
    judge('ptlc:claim-by-outsider', lock,
          t_.make_ptlc_witness(X, fields, sigflags=f_hex), False)
    judge('ptlc:refund', lock, t_.make_ptlc_refund_witness(F, fields, f_hex),
          in_time)
    judge('ptlc:refund-by-receiver', lock,
          t_.make_ptlc_refund_witness(R, fields, f_hex), False)
    judge('ptlc:refund-by-outsider', lock,
          t_.make_ptlc_refund_witness(X, fields, f_hex), False)
    judge('ptlc:claim-with-tweak-on-untweaked-lock', lock,
          t_.make_ptlc_witness(R, fields, tweak, f_hex), False)
    free = [b for b in range(8) if not (allowed >> b) & 1]
    if free:
        g_hex = f'{f | (1 << free[j % len(free)]):02x}'
        judge('ptlc:claim-flag-not-permitted', lock,
              t_.make_ptlc_witness(R, fields, sigflags=g_hex), False)
        judge('ptlc:refund-flag-not-permitted', lock,
              t_.make_ptlc_refund_witness(F, fields, g_hex), False)
        judge('ptlc_tweak:claim-flag-not-permitted', locks['ptlc_tweak'],
              t_.make_ptlc_witness(R, fields, tweak, g_hex), False)
    lock = locks['ptlc_tweak']
    judge('ptlc_tweak:claim', lock,
          t_.make_ptlc_witness(R, fields, tweak, f_hex), True)
    judge('ptlc_tweak:claim-without-tweak', lock,
          t_.make_ptlc_witness(R, fields, sigflags=f_hex), False)
    judge('ptlc_tweak:claim-wrong-tweak', lock,
          t_.make_ptlc_witness(R, fields, wrong_tweak, f_hex), False)
    judge('ptlc_tweak:claim-by-outsider', lock,
          t_.make_ptlc_witness(X, fields, tweak, f_hex), False)
    judge('ptlc_tweak:refund', lock,
          t_.make_ptlc_refund_witness(F, fields, f_hex), in_time)
    judge('ptlc_tweak:refund-by-outsider', lock,
          t_.make_ptlc_refund_witness(X, fields, f_hex), False)
    # cross-pairings: the four witness kinds made ONLY with an outsider key
    # against all six lock kinds -> must reject
    foreign = {
        'htlc': t_.make_htlc_witness(X, pre, fields, f_hex),
        'htlc2': t_.make_htlc2_witness(X, pre, fields, f_hex),
        'ptlc': t_.make_ptlc_witness(X, fields, sigflags=f_hex),
        'ptlc_refund': t_.make_ptlc_refund_witness(X, fields, f_hex),
    }
    kcoll = len({hashlib.shake_256(sigmsg.pubkey(z)).digest(hs)
                 for z in (R, F, X)}) != 3
    for wn, w in foreign.items():
        for ln, lk in locks.items():
            if ln == 'htlc2_shake256' and kcoll:
                ctx.count('skipped.digest_collision')
                continue
            judge(f'cross-foreign:{wn}->{ln}', lk, w, False)
    own = {'htlc': t_.make_htlc_witness(R, pre, fields, f_hex),
           'ptlc': t_.make_ptlc_witness(R, fields, sigflags=f_hex)}
    for wn, w in own.items():
        for ln in ('htlc2_sha256', 'ptlc', 'htlc_shake256'):
            if not ln.startswith(wn + '_') and ln != wn:
                judge(f'cross-same-key:{wn}->{ln}', locks[ln], w, None,
                      judged=False)
    if j % 80 == 0:
        ctx.sample({'timeout': timeout, 't-deadline': t - deadline,
                    't-now': t - now, 'lock_htlc': bytes(locks['htlc_sha256'])})


def run_shard(spec, ctx):
    i, of = spec['shard'], spec['of']
    n = NSCEN[ctx.tier] // of
    for j in range(n):
        # a quarter of the scenarios live in a process configured with every
        # register export off (functions.flags[1..9] = False): locks and
        # builders work on the stack, not on the registers
        off = j % 4 == 1
        ctx.tab('registers', 'off' if off else 'default')
        # ... and another quarter with an embedder signature extension
        # registered for the whole process (it rewrites sigfield1 once per
        # signature-related instruction, for builders and locks alike)
        ext = j % 4 == 2
        ctx.tab('signature_extension', 'registered' if ext else 'none')
        if ext:
            import tapescript
            tapescript.add_signature_extension(env.rewriting_extension)
        # a third of the scenarios under a slack threshold the verifier
        # configured, for the process or for the single run
        Cfg.slack, Cfg.mode = 60, 'default'
        if j % 3 == 2:
            Cfg.slack = (5, 10, 600, 100000)[(j // 3) % 4]
            Cfg.mode = ('global', 'per-run')[(j // 12) % 2]
        ctx.tab('slack_configuration', f'{Cfg.mode}:{Cfg.slack}')
        gf = dict(env.REGISTERS_OFF if off else {})
        if Cfg.mode == 'global':
            gf['ts_threshold'] = Cfg.slack
        try:
            with env.global_flags(gf):
                scenario(ctx, ctx.rng(j), j)
        finally:
            Cfg.slack, Cfg.mode = 60, 'default'
            if ext:
                tapescript.reset_signature_extensions()
    env.Clock.now = env.NOW0


def finalize(agg, tier):
    out = []
    e = agg['tables'].get('expected', {})
    if not e.get('True') or not e.get('False'):
        out.append(f'expected verdicts not diverse: {e}')
    return out


def replay(case, ctx):
    ctx.evaluated()
    if case.get('name') == 'builder-raised':
        t_ = env.mods()[2]
        env.Clock.now = NOW0
        kw = dict(timeout=case['timeout'], sigflags=case['sigflags'])
        k, pR, pF = case['kind'], case['pR'], case['pF']
        try:
            if k.startswith('ptlc'):
                t_.make_ptlc_lock(pR, pF, case['T'] if k == 'ptlc_tweak'
                                  else None, **kw)
            else:
                if k.endswith('shake256'):
                    kw['hash_size'] = case['hs']
                getattr(t_, f'make_{k}_lock')(pR, pF, preimage=case['pre'],
                                              **kw)
        except Exception as e:
            ctx.violation(f'tlc-builder-raised:{k}', 'replay', case, 'a lock',
                          f'{type(e).__name__}: {e}'[:160])
        return
    if 'lock' not in case:
        return
    env.Clock.now = case['now']
    Cfg.slack, Cfg.mode = case.get('slack', 60), case.get('mode', 'default')
    with env.global_flags({'ts_threshold': Cfg.slack}
                          if Cfg.mode == 'global' else {}):
        got = auth([case['witness'], case['lock']],
                   {**case['fields'], 'timestamp': case['t']})
    Cfg.slack, Cfg.mode = 60, 'default'
    env.Clock.now = env.NOW0
    if case['want'] is not None and (got is True) != case['want']:
        ctx.violation(('tlc-accepts:' if got is True else 'tlc-rejects:')
                      + case['name'], 'replay', case, case['want'],
                      repr(got)[:80])
