"""C05 — taproot: the root binds key and script; both spend paths are exact.

(a) root identity with the pure-Python Ed25519 reference only;
(b) key path: witness [sig] succeeds iff the C02 model says so with key = root;
(c) script path: (script, key) runs iff the pair recomputes to the root,
    otherwise verdict False and zero dispatches on the supplied script;
(d) the builders' witnesses unlock their own lock;
(e) native vs non-native lock: same verdict over the C01 adversarial witness
    family (within the stated domain).
"""
from __future__ import annotations
import hashlib

from .. import env
from ..gen import auth
from ..ref import ed25519 as E
from ..ref import isa, sigmsg, taproot

ID = 'C05'
BUILDER_DEFAULTS = True     # tools.* goes through tsverif/omit.py
RULE = ('locks from random seeds x verdict-diverse committed scripts x '
        'sigfield sets x flag/allowed pairs; per lock: root identity, builder '
        'key-spend for every permitted flag of a sample + script-spend, '
        'corruptions of script byte / internal key (bit flips, invalid '
        'encodings, small-order points) / signature / root, random (script, '
        'key) pairs; native vs non-native over adversarial witnesses. '
        'distinct = by (lock, witness); non-trivial = every case except the '
        'plain default-flag honest key spend'
        ' [plus non-point and ff..ff keys, every corrupted pair once more on top of a parked true, the empty committed script, flagged key spends against both lock forms, a process-wide signature extension, the graftap builder pair under permitted flags and one excess bit, non-default limits]')
ASSUMPTIONS = [
    'pure-Python Ed25519 is the reference for the root identity; libsodium '
    '(called directly) decides signature validity, cross-checked on a sample',
    '(e) is judged only where both locks have room: witnesses leaving >= 4 '
    'units of call budget, committed scripts closed (they call only functions '
    'they define) and non-empty',
]
NSH = 16
NLOCK = {'quick': 1280, 'thorough': 60_000}
O = isa.op

SMALL_ORDER = [
    bytes(32), b'\x01' + bytes(31),
    bytes.fromhex('26e8958fc2b227b045c3f489f2ef98f0d5dfac05d3c63339b13802886d53fc05'),
    bytes.fromhex('c7176a703d4dd84fba3c0b760d10670f2a2053fa2c39ccc64ec7fd7792ac037a'),
    bytes.fromhex('ecffffffffffffffffffffffffffffffffffffffffffffffffffffffffffff7f'),
]


def shards(tier, seed):
    return [{'shard': i, 'of': NSH} for i in range(NSH)]


def rbytes(rng, n):
    return bytes(rng.getrandbits(8) for _ in range(n))


class Tr:
    counts: dict = {}
    total = 0


def install_tracer():
    functions = env.mods()[0]
    saved = (dict(functions.opcodes), dict(functions.nopcodes))

    def wrap(name, fn):
        def traced(tape, stack, cache):
            Tr.total += 1
            Tr.counts[tape.data] = Tr.counts.get(tape.data, 0) + 1
            fn(tape, stack, cache)
        return traced
    for table in (functions.opcodes, functions.nopcodes):
        for c, (name, fn) in list(table.items()):
            table[c] = (name, wrap(name, fn))
    return saved


def remove_tracer(saved):
    functions = env.mods()[0]
    functions.opcodes.clear()
    functions.opcodes.update(saved[0])
    functions.nopcodes.clear()
    functions.nopcodes.update(saved[1])


def run_auth(scripts, fields, limit=128):
    functions = env.mods()[0]
    Tr.counts = {}
    try:
        lim = env.roomy_limits(*scripts)
        lim['callstack_limit'] = limit
        return functions.run_auth_scripts(list(scripts), dict(fields), **lim)
    except BaseException as e:
        return e


COMMITTED = [
    (O('TRUE'), True), (O('FALSE'), False), (O('TRUE') + O('TRUE'), False),
    (isa.push(b'\x01\x02') + O('SHA256') + O('POP0') + O('TRUE'), True),
    (O('FALSE') + O('VERIFY') + O('TRUE'), False),
    (O('TRUE') + O('RETURN') + O('FALSE'), True),
    (isa.DEF(5, O('TRUE')) + isa.CALL(5), True),
    (O('TRUE') + isa.IF(O('TRUE')), True),
    (isa.push(b'ab') + O('DUP') + O('EQUAL_VERIFY') + O('TRUE'), True),
]


def committed_script(rng):
    s, v = rng.choice(COMMITTED)
    r = rng.random()
    if r < 0.3:
        s = isa.push(rbytes(rng, rng.choice((1, 30, 200)))) + O('POP0') + s
    elif r < 0.45:
        # a committed script of EXACTLY the length of a digest / a key / a
        # signature / a size-field boundary (harmless fillers in front)
        want = rng.choice((32, 33, 64, 65, 127, 128, 255, 256, 256, 257, 300))
        gap = want - len(s)
        if gap >= 2:
            three = gap % 2
            s = (O('TRUE') + O('POP0')) * ((gap - 3 * three) // 2) \
                + (isa.push(b'\x09') + O('POP0')) * three + s
            assert len(s) == want
    return s, v


def dg(*x) -> bytes:
    return hashlib.blake2b(repr(x).encode(), digest_size=8).digest()


def judge_lock(ctx, rng, j):
    functions, parsing, tools, _, _ = env.mods()
    seed = rbytes(rng, 32)
    P = sigmsg.pubkey(seed)
    S, s_verdict = committed_script(rng)
    script = tools.Script('committed', S)
    fields = {f'sigfield{k}': rbytes(rng, rng.choice((0, 1, 16, 64)))
              for k in range(1, 9) if rng.random() < 0.5}
    fields.setdefault('sigfield1', b'msg')
    allowed = rng.choice((0x00, 0x01, 0x0f, 0xf0, 0xff, rng.getrandbits(8)))
    lock = bytes(tools.make_taproot_lock(P, script, sigflags=f'{allowed:02x}'))
    base = {'seed': seed, 'script': S, 'fields': fields, 'allowed': allowed,
            'lock': lock}
    # ---- (a) root identity, pure Python
    ctx.evaluated()
    parsed = taproot.parse_lock(lock)
    want_root = taproot.root(P, S)
    if parsed is None or parsed[0] != want_root or parsed[1] != allowed:
        ctx.violation('root-identity', 'taproot lock is not `push <P + '
                      'clamp(sha256(P||sha256(S)))*G> taproot <flags>`',
                      dict(base, kind='root'),
                      (want_root or b'').hex(), lock.hex())
        return
    root = parsed[0]
    ctx.count('root_identities_checked_pure_python')
    if lock != bytes(tools.make_taproot_lock(
            P, script_commitment=hashlib.sha256(S).digest(),
            sigflags=f'{allowed:02x}')):
        ctx.violation('root-identity-commitment-form', 'lock from '
                      'script_commitment differs from lock from script',
                      dict(base, kind='root'))
    # ---- (d)+(b) builder key spend for permitted flags, model-checked
    permitted = [f for f in range(256) if not (f & ~allowed & 0xff)
                 and f != 0xff]
    flags = {0} | set(rng.sample(permitted, min(len(permitted), 3)))
    for f in sorted(flags):
        ctx.evaluated()
        wit = bytes(tools.make_taproot_witness_keyspend(
            seed, fields, script, sigflags=f'{f:02x}'))
        got = run_auth([wit, lock], fields)
        case = dict(base, kind='keyspend', f=f, witness=wit)
        if got is not True:
            ctx.violation('builder-keyspend-rejected', 'key-spend witness of '
                          f'the builder (flag {f:#04x}) does not unlock its '
                          'own lock', case, True, repr(got)[:80])
            continue
        sig = wit[2:] if wit[0] == 0x03 else b''
        msg = sigmsg.message(fields, f)
        if not sigmsg.valid_fast(root, msg, sig[:64]):
            ctx.violation('keyspend-not-valid-under-root', 'accepted key '
                          'spend is not a valid signature under the root',
                          case)
            continue
        if f or j % 8 == 0:
            ctx.mark_nontrivial(dg('ks', lock, f))
        # corruptions of the accepted signature / covered field / flag
        bad = bytearray(sig)
        bad[rng.randrange(64)] ^= 1 << rng.randrange(8)
        variants = [('sigbit', isa.push(bytes(bad)), fields)]
        # an item that is not 64 / 65 bytes long is no signature, whatever
        # its first 64 and its last byte are
        variants.append(('sig-stretched', isa.push(
            sig[:64] + rbytes(rng, rng.randrange(1, 4)) + bytes([f])),
            fields))
        variants.append(('sig-short', isa.push(sig[:rng.choice((63, 32))]),
                         fields))
        cov = sigmsg.covered(fields, f)
        if cov:
            k = rng.choice(cov)
            nf = dict(fields)
            nf[f'sigfield{k}'] = fields[f'sigfield{k}'] + b'\x00'
            variants.append(('covered-field', wit, nf))
        free = [b for b in range(8) if not (allowed >> b) & 1]
        if free:
            # minimal excess: the permitted flag plus exactly one bit the lock
            # does not permit, rotating over the bits
            g = f | (1 << free[j % len(free)])
            if g != 0xff:
                # a *valid* signature over the message selected by a flag the
                # lock does not permit
                variants.append(('forbidden-flag', bytes(
                    tools.make_taproot_witness_keyspend(
                        seed, fields, script, sigflags=f'{g:02x}')), fields))
        other = rbytes(rng, 32)
        variants.append(('other-key', bytes(tools.make_single_sig_witness(
            other, fields)), fields))
        variants.append(('internal-key-sig', bytes(
            tools.make_single_sig_witness(seed, fields)), fields))
        for name, w, fl in variants:
            ctx.evaluated()
            # model verdict: valid sig under root w/ permitted flag?
            item = w[2:] if w[:1] == b'\x03' else b''
            fb = item[64] if len(item) == 65 else 0
            want = len(item) in (64, 65) and not (fb & ~allowed & 0xff) and \
                sigmsg.valid_fast(root, sigmsg.message(fl, fb), item[:64])
            got = run_auth([w, lock], fl)
            if (got is True) != want:
                ctx.violation('keypath-' + name, f'key path verdict differs '
                              f'from the C02 model with key = root ({name})',
                              dict(case, witness=w, fields=fl), want,
                              repr(got)[:80])
            else:
                ctx.mark_nontrivial(dg('kp', lock, name, w))
    # ---- the graftap pair of builders (a taproot lock over a fixed
    # committed script): its key spends, under the flags the lock was asked to
    # permit, unlock it; one excess bit does not
    if j % 3 == 0:
        try:
            glock = bytes(tools.make_graftap_lock(P, f'{allowed:02x}'))
            gfl = sorted(flags)
            free = [b for b in range(8) if not (allowed >> b) & 1]
            if free and (max(flags) | (1 << free[j % len(free)])) != 0xff:
                gfl.append(max(flags) | (1 << free[j % len(free)]))
            for f in gfl:
                ctx.evaluated()
                gw = bytes(tools.make_graftap_witness_keyspend(
                    seed, fields, f'{f:02x}'))
                want = not (f & ~allowed & 0xff)
                got = run_auth([gw, glock], fields)
                if (got is True) != want:
                    ctx.violation(
                        'builder-keyspend-rejected' if want else
                        'keypath-forbidden-flag', 'graftap lock (permitting '
                        f'{allowed:#04x}) and the graftap key-spend witness '
                        f'made with flag {f:#04x}: verdict differs',
                        dict(base, kind='graftap', lock=glock, witness=gw,
                             f=f, want=want), want, repr(got)[:80])
                else:
                    ctx.mark_nontrivial(dg('graftap', glock, f))
        except BaseException as e:
            ctx.violation('builder-raised:graftap', repr(e)[:120],
                          dict(base, kind='graftap-raised'))
    # ---- (d)+(c) script spend
    ctx.evaluated()
    wit = bytes(tools.make_taproot_witness_scriptspend(P, script))
    got = run_auth([wit, lock], fields)
    case = dict(base, kind='scriptspend', witness=wit)
    ctx.tab('committed_verdict', s_verdict)
    if (got is True) != s_verdict:
        ctx.violation('builder-scriptspend-verdict', 'script-spend witness: '
                      "verdict is not the committed script's own verdict",
                      case, s_verdict, repr(got)[:80])
    elif Tr.counts.get(S, 0) == 0:
        ctx.violation('committed-script-not-run', 'script-spend witness: no '
                      'instruction of the committed script was dispatched',
                      case)
    else:
        ctx.mark_nontrivial(dg('ss', lock))
    # corrupted (script, key) pairs
    pairs = []
    s2 = bytearray(S)
    s2[rng.randrange(len(s2))] ^= 1 << rng.randrange(8)
    pairs.append(('script-byte', bytes(s2), P))
    pairs.append(('script-true', O('TRUE'), P) if S != O('TRUE')
                 else ('script-true', O('TRUE') + O('POP0') + O('TRUE'), P))
    k2 = bytearray(P)
    k2[rng.randrange(32)] ^= 1 << rng.randrange(8)
    pairs.append(('key-bit', S, bytes(k2)))
    pairs.append(('other-key', S, sigmsg.pubkey(rbytes(rng, 32))))
    pairs.append(('small-order-key', S, rng.choice(SMALL_ORDER)))
    pairs.append(('root-as-key', S, root))
    pairs.append(('random-pair', O('TRUE'), sigmsg.pubkey(rbytes(rng, 32))))
    # a 32-byte key that is not a curve point at all / not a canonical one
    for _ in range(40):
        npk = rbytes(rng, 32)
        if not E.is_valid_point(npk):
            pairs.append(('non-point-key', S, npk))
            break
    pairs.append(('key-all-ff', S, b'\xff' * 32))
    # ... and every such pair once more on top of a parked `true`: a pair
    # that does not bind must leave false, not vanish
    pairs += [(n_ + '+true-underneath', s_, k_) for n_, s_, k_ in list(pairs)]
    for name, s_, k_ in pairs:
        ctx.evaluated()
        w = isa.push(s_) + isa.push(k_)
        if name.endswith('+true-underneath'):
            w = O('TRUE') + w
        model_root = taproot.root(k_, s_)
        binds = model_root == root
        got = run_auth([w, lock], fields)
        c = dict(base, kind='pair', corruption=name, witness=w)
        if binds:
            ctx.count('corrupted_pairs_that_still_bind')
            continue
        if got is not False:
            ctx.violation('uncommitted-pair-accepted', f'({name}) verdict is '
                          'not False although the pair does not recompute to '
                          'the root', c, False, repr(got)[:80])
        elif Tr.counts.get(s_, 0):
            ctx.violation('uncommitted-script-executed', f'({name}) '
                          f'{Tr.counts[s_]} instruction(s) of the supplied '
                          'script ran although the pair does not recompute to '
                          'the root', c, 0, Tr.counts[s_])
        else:
            ctx.mark_nontrivial(dg('pair', lock, name, w))
    # corrupted root: honest witnesses must fail
    ctx.evaluated()
    lk = bytearray(lock)
    lk[2 + rng.randrange(32)] ^= 1 << rng.randrange(8)
    for w in (wit, bytes(tools.make_taproot_witness_keyspend(seed, fields,
                                                             script))):
        got = run_auth([w, bytes(lk)], fields)
        if got is not False:
            ctx.violation('corrupted-root-accepted', 'honest witness unlocks '
                          'a lock whose root was altered',
                          dict(base, kind='badroot', lock=bytes(lk), witness=w))
    # ---- (e) native vs non-native
    nn = bytes(tools.make_nonnative_taproot_lock(P, script,
                                                 sigflags=f'{allowed:02x}'))
    honest = [wit, bytes(tools.make_taproot_witness_keyspend(seed, fields,
                                                             script))]
    info = {'handles': [1, 2], 'keys': [b'k'], 'wants': []}
    ws = list(honest)
    # flagged key spends, permitted and with one excess bit: both lock forms
    # must draw the same line
    free = [b for b in range(8) if not (allowed >> b) & 1]
    fl = [max(permitted)] + ([min(permitted) | (1 << free[
        rng.randrange(len(free))])] if free else [])
    for g in fl:
        try:
            ws.append(bytes(tools.make_taproot_witness_keyspend(
                seed, fields, script, sigflags=f'{g:02x}')))
        except BaseException:
            pass
    for _ in range(4):
        pre = auth.witness(rng, info)
        ws.append(pre + rng.choice(honest))
        ws.append(pre)
    ws.append(isa.push(rbytes(rng, 32)))
    ws.append(isa.push(rbytes(rng, 64)))
    ws.append(isa.push(rbytes(rng, 5)) + isa.push(rbytes(rng, 32)))
    for w in ws:
        if isa.op('CALL') + b'\x09' * 1 in w and w.count(isa.CALL(9)) > 100:
            continue
        ctx.evaluated()
        a = run_auth([w, lock], fields)
        b = run_auth([w, nn], fields)
        if (a is True) != (b is True):
            ctx.violation('native-nonnative-differ', 'native taproot lock and '
                          'non-native lock give different verdicts',
                          dict(base, kind='nn', witness=w, nonnative=nn),
                          f'native={a!r}'[:60], f'nonnative={b!r}'[:60])
        else:
            ctx.tab('native_vs_nonnative', a is True)
            ctx.mark_nontrivial(dg('nn', lock, w))
    # ---- (f) the same with an embedder signature extension registered for
    # the whole process (it rewrites the message once per signature-related
    # instruction): builder key spends made under it unlock both lock forms,
    # and the two forms still agree on every witness
    if j % 4 == 1:
        import tapescript

        tapescript.add_signature_extension(_ext)
        try:
            ks = []
            for g in sorted({0, max(permitted)}):
                try:
                    ks.append(bytes(tools.make_taproot_witness_keyspend(
                        seed, dict(fields), script, sigflags=f'{g:02x}')))
                except BaseException:
                    pass
            for w in ks + ws[:4]:
                ctx.evaluated()
                a = run_auth([w, lock], fields)
                b = run_auth([w, nn], fields)
                honest = w in ks
                ctx.tab('with_extension', f'honest={honest} native={a is True}')
                if (a is True) != (b is True):
                    ctx.violation('native-nonnative-differ', 'with a '
                                  'signature extension registered, native '
                                  'and non-native lock give different '
                                  'verdicts', dict(base, kind='nn-ext',
                                                   witness=w, nonnative=nn),
                                  f'native={a!r}'[:60],
                                  f'nonnative={b!r}'[:60])
                    break
                if honest and a is not True:
                    ctx.violation('builder-keyspend-rejected', 'with a '
                                  'signature extension registered, the '
                                  "builder's key-spend witness (made under "
                                  'it) does not unlock its lock',
                                  dict(base, kind='nn-ext', witness=w,
                                       nonnative=nn), True, repr(a)[:60])
                    break
        finally:
            tapescript.reset_signature_extensions()
    if j % 40 == 0:
        ctx.sample({'lock': lock, 'committed': S, 'allowed': allowed})


def _ext(tape, stack, cache):
    cache['sigfield1'] = hashlib.sha256(
        b'ext' + cache.get('sigfield1', b'')).digest()[:9]


def judge_mixed_order_key(ctx, rng, j):
    """an internal key that is ON the curve but not in the prime-order group
    (an honest key plus a small-order point): the builders may refuse it; if
    they build locks for it, the native and the non-native lock still agree
    on the builders' own script-spend witness"""
    functions, parsing, tools, _, _ = env.mods()
    P = sigmsg.pubkey(rbytes(rng, 32))
    tors = [t for t in SMALL_ORDER if E.decode(t) is not None
            and E.encode(E.decode(t)) != E.encode(E.mul(0, E.G))]
    if not tors:
        return
    K = E.encode(E.add(E.decode(P), E.decode(rng.choice(tors))))
    script = tools.Script('', O('TRUE'))
    ctx.evaluated()
    try:
        lock = bytes(tools.make_taproot_lock(K, script))
        nn = bytes(tools.make_nonnative_taproot_lock(K, script))
        w = bytes(tools.make_taproot_witness_scriptspend(K, script))
    except BaseException:
        ctx.count('mixed_order_key.builder_refuses')
        return
    ctx.count('mixed_order_key.locks_built')
    a = run_auth([w, lock], {})
    b = run_auth([w, nn], {})
    if (a is True) != (b is True):
        ctx.violation('native-nonnative-differ', 'internal key with a '
                      'small-order component: the native lock and the '
                      'non-native lock built for it give different verdicts '
                      "on the builder's script-spend witness",
                      dict(seed=b'', script=O('TRUE'), fields={}, allowed=0,
                           lock=lock, kind='nn', witness=w, nonnative=nn),
                      f'native={a!r}'[:60], f'nonnative={b!r}'[:60])


def judge_mutated_script(ctx, rng, j):
    """a Script is a mutable object with public fields: one that was
    already committed to and then given other byte code commits, from then
    on, to what it holds NOW"""
    functions, parsing, tools, _, _ = env.mods()
    seed = rbytes(rng, 32)
    P = sigmsg.pubkey(seed)
    (s1, _), (s2, v2) = committed_script(rng), committed_script(rng)
    if s1 == s2:
        s2 = O('TRUE') + O('POP0') + s2
    obj = tools.Script('first', s1)
    ctx.evaluated()
    try:
        tools.make_taproot_lock(P, obj)
        obj.commitment()
        obj.src, obj.bytes = 'second', s2
        lock = bytes(tools.make_taproot_lock(P, obj))
        w = bytes(tools.make_taproot_witness_scriptspend(P, obj))
    except BaseException as e:
        ctx.violation('builder-raised:mutated-script', repr(e)[:120],
                      {'kind': 'mutated', 'seed': seed, 's1': s1, 's2': s2})
        return
    case = dict(seed=seed, script=s2, fields={}, allowed=0, lock=lock,
                kind='scriptspend', witness=w)
    if taproot.parse_lock(lock) is None or \
            taproot.parse_lock(lock)[0] != taproot.root(P, s2):
        ctx.violation('root-identity', 'the lock built from a Script object '
                      'whose byte code was replaced after an earlier '
                      'commitment does not commit to its current byte code',
                      dict(case, kind='root'))
        return
    got = run_auth([w, lock], {})
    if (got is True) != v2:
        ctx.violation('builder-scriptspend-verdict', 'script spend of a '
                      'Script object whose byte code was replaced after an '
                      'earlier commitment', case, v2, repr(got)[:60])
    else:
        ctx.mark_nontrivial(dg('mutated', lock))


def judge_empty_commitment(ctx, rng, j):
    """a lock committing to the EMPTY script: the pair (b'', P) recomputes to
    the root, but an empty script cannot be evaluated, so no witness opens the
    script path - in particular not one that parks a script of its own under
    the empty item"""
    functions, parsing, tools, _, _ = env.mods()
    seed = rbytes(rng, 32)
    P = sigmsg.pubkey(seed)
    fields = {'sigfield1': rbytes(rng, 8)}
    try:
        lock = bytes(tools.make_taproot_lock(P, tools.Script('', b'')))
        nn = bytes(tools.make_nonnative_taproot_lock(P, tools.Script('', b'')))
    except BaseException:
        ctx.count('empty_commitment.builder_refuses')
        return
    parked = rng.choice((O('TRUE'), O('TRUE') + O('POP0') + O('TRUE'),
                         isa.push(b'\x01\x02') + O('SHA256') + O('POP0')
                         + O('TRUE')))
    empty = b'\x03\x00'                    # PUSH1 size 0
    for name, w in (
            ('parked-script', isa.push(parked) + empty + isa.push(P)),
            ('true-underneath', O('TRUE') + empty + isa.push(P)),
            ('just-the-pair', empty + isa.push(P))):
        for lk, form in ((lock, 'native'), (nn, 'non-native')):
            ctx.evaluated()
            got = run_auth([w, lk], fields)
            case = dict(seed=seed, script=b'', fields=fields, allowed=0,
                        lock=lk, kind='pair', corruption='empty:' + name,
                        witness=w)
            if got is not False:
                ctx.violation('uncommitted-pair-accepted', f'(empty '
                              f'commitment, {name}, {form} lock) verdict is '
                              'not False', case, False, repr(got)[:80])
            elif Tr.counts.get(parked, 0) and name == 'parked-script':
                ctx.violation('uncommitted-script-executed', '(empty '
                              f'commitment, {form} lock) the script parked '
                              'under the empty item ran', case, 0,
                              Tr.counts[parked])
            else:
                ctx.mark_nontrivial(dg('empty', lk, name))
    ctx.count('empty_commitment.locks')


def run_shard(spec, ctx):
    i, of = spec['shard'], spec['of']
    n = NLOCK[ctx.tier] // of
    saved = install_tracer()
    try:
        for j in range(n):
            judge_lock(ctx, ctx.rng(j), j)
            if j % 16 == 3:
                judge_empty_commitment(ctx, ctx.rng(('empty', j)), j)
            if j % 16 == 7:
                judge_mixed_order_key(ctx, ctx.rng(('mixed', j)), j)
            if j % 16 == 11:
                judge_mutated_script(ctx, ctx.rng(('mutated', j)), j)
        ctx.count('monitor.dispatches', Tr.total)
    finally:
        remove_tracer(saved)


def finalize(agg, tier):
    out = []
    c = agg['counters']
    if not c.get('monitor.dispatches'):
        out.append('dispatch tracer saw nothing')
    if not c.get('root_identities_checked_pure_python'):
        out.append('no root identity checked')
    v = agg['tables'].get('native_vs_nonnative', {})
    if not v.get('True') or not v.get('False'):
        out.append(f'native/non-native verdicts not diverse: {v}')
    return out


def replay(case, ctx):
    saved = install_tracer()
    try:
        ctx.evaluated()
        k = case.get('kind')
        lock, fields = case['lock'], case['fields']
        root, allowed = taproot.parse_lock(lock) or (None, None)
        if k == 'root':
            P = sigmsg.pubkey(case['seed'])
            if root != taproot.root(P, case['script']):
                ctx.violation('root-identity', 'replay', case)
        elif k in ('keyspend', 'pair', 'scriptspend', 'badroot'):
            got = run_auth([case['witness'], lock], fields)
            if k == 'pair':
                if got is not False or any(
                        Tr.counts.get(x, 0) for x in Tr.counts
                        if x not in (case['witness'], lock)):
                    ctx.violation('uncommitted-pair-accepted', 'replay', case,
                                  False, repr(got))
            elif k == 'badroot':
                if got is not False:
                    ctx.violation('corrupted-root-accepted', 'replay', case)
            elif k == 'keyspend':
                w = case['witness']
                item = w[2:] if w[:1] == b'\x03' else b''
                fb = item[64] if len(item) == 65 else 0
                want = len(item) in (64, 65) and \
                    not (fb & ~allowed & 0xff) and sigmsg.valid_fast(
                        root, sigmsg.message(fields, fb), item[:64])
                if (got is True) != want:
                    ctx.violation('keypath-replay', 'replay', case, want,
                                  repr(got))
        elif k == 'graftap':
            got = run_auth([case['witness'], lock], fields)
            if (got is True) != case['want']:
                ctx.violation('builder-keyspend-rejected' if case['want'] else
                              'keypath-forbidden-flag', 'replay', case,
                              case['want'], repr(got)[:60])
        elif k == 'nn-ext':
            import tapescript
            tapescript.add_signature_extension(_ext)
            try:
                a = run_auth([case['witness'], lock], fields)
                b = run_auth([case['witness'], case['nonnative']], fields)
            finally:
                tapescript.reset_signature_extensions()
            if (a is True) != (b is True):
                ctx.violation('native-nonnative-differ', 'replay', case)
        elif k == 'nn':
            a = run_auth([case['witness'], lock], fields)
            b = run_auth([case['witness'], case['nonnative']], fields)
            if (a is True) != (b is True):
                ctx.violation('native-nonnative-differ', 'replay', case)
    finally:
        remove_tracer(saved)
