"""C12 — decompiling always terminates and round-trips compiler output.

(a) bounded progress on arbitrary bytes: decompile_script runs with a monitored
    Tape injected as parsing.Tape — every read is observed (size >= 0, pointer
    never decreases) under a logical step budget linear in the input.
(b) round trip: compile(decompile(b)) == b for compiler and builder output.
(c) listing oracle: the listing names, in order, the instructions and operand
    values of the reference disassembly of b.
"""
from __future__ import annotations
import glob
import hashlib
import os

from .. import env, instr
from ..gen import corpus, progs
from ..ref import asm, isa, render

ID = 'C12'
RULE = ('termination: all byte strings up to length 2 (quick) / 3 (thorough), '
        'crafted 2-byte size fields (7fff/8000/ffff/fffd...) in every block '
        'and PUSH2 position, inner sizes exceeding outer, random and mutated '
        'strings up to 70 KiB; round trip + listing: real-compiler output of '
        'generated programs (C11 generator), all builder outputs, all '
        'repository vectors, operand sizes on both sides of 2^7/2^8/2^15/2^16. '
        'distinct = by input bytes; non-trivial = contains a size field >= 128 '
        'or a block construct')
ASSUMPTIONS = [
    'termination is restated as bounded progress: read calls <= 8*len + 64 '
    '(every instruction instance owns a distinct opcode byte and performs at '
    'most 5 reads); a wall-clock watchdog only yields inconclusive',
    'the reference disassembler transcribes docs.md operand formats',
]
NSH = 16
RECURSION_LIMIT = 4000


def shards(tier, seed):
    return [{'shard': i, 'of': NSH} for i in range(NSH)]


def dg(b: bytes) -> bytes:
    return hashlib.blake2b(b, digest_size=8).digest()


# ---------------------------------------------------------------- (a)

def decompile_monitored(b: bytes):
    """-> (lines | None, exception | None, monitor)"""
    _, parsing, _, _, _ = env.mods()
    mon = instr.Monitor(budget=8 * len(b) + 64)
    with instr.injected(mon):
        try:
            return parsing.decompile_script(b), None, mon
        except instr.BudgetExceeded as e:
            return None, e, mon
        except BaseException as e:
            return None, e, mon


def judge_termination(ctx, b: bytes, tag: str):
    ctx.evaluated()
    lines, exc, mon = decompile_monitored(b)
    ctx.count('monitor.tape_reads', mon.reads)
    case = {'kind': 'bytes', 'b': b if len(b) <= 4096 else b[:4096],
            'len': len(b), 'tag': tag}
    if mon.exhausted:
        key = 'decompile-step-budget-exhausted'
        if any(k == 'tape-negative-read' for k, _ in mon.problems):
            key = 'decompile-negative-read-loops'
        ctx.violation(key, f'decompile_script made more than {mon.budget} '
                      f'reads on a {len(b)}-byte input (does not terminate in '
                      'bounded steps)', case, 'return or raise',
                      [p for p in mon.problems[:3]])
        return None
    for k, d in mon.problems:
        ctx.violation('decompile-' + k, 'decompile_script: ' + d, case)
        break
    ctx.tab('termination_outcome',
            'listing' if exc is None else type(exc).__name__)
    return lines


def crafted(rng):
    """inputs with hostile size fields"""
    sizes = [b'\x7f\xff', b'\x80\x00', b'\xff\xff', b'\xff\xfd', b'\xff\xfe',
             b'\x00\x00', b'\x00\x01', b'\x80\x01', b'\xff\x00']
    o = isa.CODE
    out = []
    for s in sizes:
        for tail in (b'', b'\x01', b'\x01' * 5, bytes(40)):
            out.append(bytes([o['OP_PUSH2']]) + s + tail)
            out.append(b'\x01' + bytes([o['OP_PUSH2']]) + s + tail)
            out.append(b'\x01\x01\x01' + bytes([o['OP_PUSH2']]) + s + tail)
            out.append(bytes([o['OP_IF']]) + s + tail)
            out.append(bytes([o['OP_LOOP']]) + s + tail)
            out.append(bytes([o['OP_DEF'], 0]) + s + tail)
            out.append(bytes([o['OP_IF_ELSE']]) + s + tail)
            out.append(bytes([o['OP_IF_ELSE']]) + b'\x00\x01\x01' + s + tail)
            out.append(bytes([o['OP_TRY_EXCEPT']]) + b'\x00\x00' + s + tail)
            # inner size exceeding the outer body
            inner = bytes([o['OP_IF']]) + s + tail
            out.append(bytes([o['OP_IF']]) + len(inner).to_bytes(2, 'big')
                       + inner)
            inner = bytes([o['OP_PUSH2']]) + s + tail
            out.append(bytes([o['OP_DEF'], 1]) + len(inner).to_bytes(2, 'big')
                       + inner + b'\x01')
    for k in (1, 2, 3):
        out.append(bytes([o['OP_PUSH1'], 255]) + bytes(k))
        out.append(bytes([o['OP_WRITE_CACHE'], 200]) + bytes(k))
        out.append(bytes([o['OP_MERKLEVAL']]) + bytes(31))
    return out


# ---------------------------------------------------------------- (b),(c)

def parse_listing(lines):
    """listing -> flat sequence comparable with asm.flatten()"""
    seq = []
    for ln in lines:
        t = ln.split()
        if not t:
            continue
        if t[0] == '}':
            if len(t) >= 3 and t[1] in ('ELSE', 'EXCEPT') and t[2] == '{':
                seq.append(('}{', t[1]))
            else:
                seq.append(('}', None))
            continue
        ops = t[1:]
        opens = False
        if ops and ops[-1] == '{':
            ops = ops[:-1]
            opens = True
        seq.append((t[0], tuple(ops)))
        if opens:
            seq.append(('{', None))
    return seq


def tok_val(tok):
    """'d12' -> ('d', 12); 'xab' -> ('x', bytes)"""
    # a token that is not a well-formed value names no operand at all: that
    # is a finding about the listing ('?'), not a failure of this parser
    try:
        if tok[0] in 'dD':
            return 'd', int(tok[1:])
        if tok[0] in 'xX':
            return 'x', bytes.fromhex(tok[1:])
    except ValueError:
        pass
    return '?', tok


def listing_matches(lines, b: bytes):
    """-> None if the listing names exactly the instructions/operands of the
    reference disassembly of b, else a description of the first difference."""
    try:
        ref = asm.flatten(asm.disassemble(b))
    except asm.DisasmError:
        return None
    got = parse_listing(lines)
    gi = 0
    i = 0
    in_try = []     # per open block: is it an OP_TRY_EXCEPT?
    # TRY with an empty EXCEPT is printed without the EXCEPT clause
    while i < len(ref):
        name, ops = ref[i]
        if gi >= len(got):
            return f'listing ends before instruction #{i} {name}'
        gname, gops = got[gi]
        if name in ('{', '}'):
            if gname != name:
                return f'expected {name} got {gname}'
            if name == '}' and in_try:
                in_try.pop()
        elif name == '}{':
            if gname == '}{':
                pass
            elif gname == '}' and i + 1 < len(ref) and ref[i + 1][0] == '}' \
                    and in_try and in_try[-1]:
                i += 1          # an empty EXCEPT clause may be omitted
                in_try.pop()    # ... and this `}` closes the TRY block
            else:
                return f'expected clause separator, got {gname}'
        else:
            want = {'OP_IF_ELSE': 'OP_IF', 'OP_TRY_EXCEPT': 'OP_TRY'}.get(
                name, name)
            if gname != want:
                return f'instruction #{i}: expected {want}, listing has {gname}'
            err = ops_match(name, ops, gops)
            if err:
                return f'instruction #{i} {name}: {err}'
            if name in ('OP_IF', 'OP_IF_ELSE', 'OP_TRY_EXCEPT', 'OP_LOOP',
                        'OP_DEF'):
                in_try.append(name == 'OP_TRY_EXCEPT')
        i += 1
        gi += 1
    if gi != len(got):
        return f'listing has extra lines from {got[gi]}'
    return None


def ops_match(name, ops, gops):
    if name == 'OP_DEF':
        if len(gops) != 1:
            return f'operands {gops}'
        h = gops[0]
        v = int(h[1:]) if h[0] in 'dD' else (
            bytes.fromhex(h[1:])[0] if h[0] in 'xX' else int(h))
        return None if v == ops[0] else f'handle {h} != {ops[0]}'
    if name.startswith('NOP') or (name in isa.KIND and
                                  isa.KIND[name] in ('u8', 'u8u8', 'u8u8u8')):
        if len(gops) != len(ops):
            return f'operand count {gops}'
        for g, o in zip(gops, ops):
            k, v = tok_val(g)
            if k == 'd' and (v & 0xff) != o:
                return f'{g} != byte {o}'
            if k == 'x' and v != bytes([o]):
                return f'{g} != byte {o}'
            if k == '?':
                return f'bad operand {g}'
        return None
    kind = isa.KIND.get(name)
    if kind == 'none':
        return None if not gops else f'unexpected operands {gops}'
    if kind in ('lv1', 'lv2'):
        val = ops[0]
        if name in ('OP_PUSH1', 'OP_PUSH2'):
            if len(gops) == 2:
                k, sz = tok_val(gops[0])
                if k != 'd' or sz != len(val):
                    return f'size {gops[0]} != {len(val)}'
                g = gops[1]
            elif len(gops) == 1:
                g = gops[0]
            else:
                return f'operands {gops}'
        else:
            if len(gops) != 1:
                return f'operands {gops}'
            g = gops[0]
        k, v = tok_val(g)
        if k == 'x':
            return None if v == val else 'value differs'
        if k == 'd':
            if not val:
                return 'd form for an empty operand'
            return None if v == isa.int_dec(val) else 'int value differs'
        return f'bad operand {g}'
    if kind == 'lv1u8':
        if len(gops) != 2:
            return f'operands {gops}'
        k, v = tok_val(gops[0])
        if not (k == 'x' and v == ops[0]):
            return 'key differs'
        k, v = tok_val(gops[1])
        if not ((k == 'd' and v == ops[1]) or (k == 'x' and v == bytes([ops[1]]))):
            return 'count differs'
        return None
    if kind in ('f4', 'h32'):
        if len(gops) != 1:
            return f'operands {gops}'
        k, v = tok_val(gops[0])
        return None if (k == 'x' and v == ops[0]) else 'value differs'
    return None


def judge_roundtrip(ctx, b: bytes, origin: str, src=None):
    _, parsing, tools, _, _ = env.mods()
    ctx.tab('roundtrip_origin', origin.split('[')[0].split(':')[0])
    case = {'kind': 'roundtrip', 'b': b if len(b) <= 6000 else b[:6000],
            'len': len(b), 'origin': origin}
    lines = judge_termination(ctx, b, 'roundtrip:' + origin)
    if lines is None:
        # compiler / builder output must decompile
        ctx.violation('decompile-rejects-compiler-output', 'decompile_script '
                      f'raised on bytes produced by {origin}', case)
        return
    diff = listing_matches(lines, b)
    if diff:
        ctx.violation('listing-differs', 'the listing does not name the '
                      f'instructions / operands of the bytecode: {diff}', case,
                      None, lines[:6])
    try:
        b2 = parsing.compile_script('\n'.join(lines))
    except BaseException as e:
        ctx.violation('listing-does-not-recompile', f'listing of {origin} '
                      f'output raises {type(e).__name__} on recompilation',
                      case, b.hex()[:200], repr(e)[:160])
        return
    if b2 != b:
        key = 'roundtrip-differs'
        try:
            fa, fb = asm.flatten(asm.disassemble(b)), \
                asm.flatten(asm.disassemble(b2))
            if len(fa) == len(fb):
                diffs = [(x, y) for x, y in zip(fa, fb) if x != y]
                if diffs and all(
                        x[0] == y[0] and x[0] in ('OP_DIV_INT', 'OP_MOD_INT')
                        and isa.int_dec(x[1][0]) == isa.int_dec(y[1][0])
                        and isa.int_enc(isa.int_dec(x[1][0])) != x[1][0]
                        for x, y in diffs):
                    key = 'div-mod-int-operand-nonminimal'
        except (asm.DisasmError, IndexError, ValueError):
            pass
        ctx.violation(key, f'recompiled listing of {origin} output differs',
                      case, b.hex()[:200], b2.hex()[:200])
        return
    st_blocks = any(x in b for x in (b'\x2b', b'\x2c', b'\x3d', b'\x45', b'\x29'))
    if st_blocks or b'\x04' in b or len(b) > 130:
        ctx.mark_nontrivial(dg(b))


def nonminimal_divmod(rng):
    """compiler output whose DIV_INT/MOD_INT operand is not minimal"""
    n = rng.choice([5, -5, 127, 128, -128, 1000])
    enc = isa.int_enc(n)
    enc = (b'\xff' if n < 0 else b'\x00') * rng.randrange(1, 3) + enc
    op = rng.choice(['div_int', 'mod_int'])
    return f'push d100 {op} x{enc.hex()}'


def deep_source(rng, depth: int) -> str:
    """a source nested `depth` blocks deep (an else-if dispatcher has no
    other way to be written): the compiler sets no limit on that, so its
    output for it has to list and round-trip as well"""
    src = 'true'
    for k in range(depth):
        w = rng.choice(('if', 'else', 'try', 'except', 'loop'))
        if w == 'if':
            src = f'true if {{ {src} }}'
        elif w == 'else':
            src = f'false if {{ false }} else {{ {src} }}'
        elif w == 'try':
            src = f'try {{ {src} }} except {{ false }}'
        elif w == 'except':
            src = f'try {{ false verify }} except {{ {src} }}'
        else:
            src = f'true loop {{ pop0 {src} false }}'
    return src


def run_shard(spec, ctx):
    functions, parsing, tools, _, _ = env.mods()
    i, of = spec['shard'], spec['of']
    tier = ctx.tier
    rng = ctx.rng('main')
    # ---- deep nesting (depths around every power of two up to 128)
    for k, depth in enumerate((7, 8, 9, 15, 16, 17, 31, 32, 33, 40, 63, 64,
                               65, 100, 127, 128)):
        if k % of != i:
            continue
        src = deep_source(ctx.rng(('deep', depth)), depth)
        try:
            code = parsing.compile_script(src)
        except BaseException:
            ctx.count('deep_nesting_source_rejected')
            continue
        ctx.count('deep_nesting_roundtrips')
        judge_roundtrip(ctx, code, f'compile_script[deep:{depth}]', src)
    # ---- (a) exhaustive short strings
    maxlen = 2 if tier == 'quick' else 3
    if i == 0:
        judge_termination(ctx, b'', 'exh')
    for a in range(i, 256, of):
        judge_termination(ctx, bytes([a]), 'exh')
        for b_ in range(256):
            judge_termination(ctx, bytes([a, b_]), 'exh')
            if maxlen >= 3:
                for c in range(256):
                    judge_termination(ctx, bytes([a, b_, c]), 'exh')
    ctx.exhaustive(f'all byte strings of length <= {maxlen}')
    # all 3-byte strings starting with a size-taking opcode (quick too)
    if tier == 'quick':
        heads = [isa.CODE[n] for n in ('OP_PUSH2', 'OP_IF', 'OP_IF_ELSE',
                                       'OP_LOOP', 'OP_TRY_EXCEPT')]
        for h in heads:
            for a in range(i, 256, of):
                for b_ in range(256):
                    judge_termination(ctx, bytes([h, a, b_]), 'exh3-size')
                    judge_termination(ctx, bytes([h, a, b_, 1]), 'exh4-size')
        ctx.exhaustive('all 3-/4-byte strings <size-taking opcode><2-byte '
                       'size>[01]')
    # ---- crafted
    for k, b in enumerate(crafted(rng)):
        if k % of == i:
            judge_termination(ctx, b, 'crafted')
            ctx.mark_nontrivial(dg(b))
    # ---- random / mutated
    nrand = (600 if tier == 'quick' else 30000) // of
    seeds = []
    for j in range(nrand):
        r = rng.random()
        if r < 0.5:
            n = rng.choice((4, 8, 16, 64, 256, 1024))
            b = bytes(rng.getrandbits(8) for _ in range(n))
        elif r < 0.6:
            n = rng.choice((20000, 70 * 1024))
            chunk = bytes(rng.getrandbits(8) for _ in range(64))
            b = (chunk * (n // 64 + 1))[:n]
        elif r < 0.7:
            # deep nesting
            d = rng.choice((5, 50, 500, 3000))
            b = b'\x01'
            for _ in range(d):
                if len(b) > 65000:
                    break
                b = bytes([isa.CODE['OP_IF']]) + len(b).to_bytes(2, 'big') + b
        else:
            ast = progs.gen_program(rng, depth=3, maxn=5, sugar=False)
            try:
                b = bytearray(asm.assemble_program(ast))
            except asm.AsmError:
                continue
            for _ in range(rng.randrange(1, 4)):
                if not b:
                    break
                p = rng.randrange(len(b))
                m = rng.random()
                if m < 0.4:
                    b[p] = rng.getrandbits(8)
                elif m < 0.6:
                    b[p:p + 1] = b''
                elif m < 0.8:
                    b[p:p] = bytes([rng.getrandbits(8)])
                else:
                    b[p:p + 2] = rng.choice((b'\xff\xff', b'\x80\x00',
                                             b'\xff\xfd', b'\x7f\xff'))
            b = bytes(b)
        judge_termination(ctx, b, 'random')
        if len(b) >= 128:
            ctx.mark_nontrivial(dg(b))
    # ---- (b)/(c) round trip: generated programs through the real compiler
    nprog = (2400 if tier == 'quick' else 100_000) // of
    for j in range(nprog):
        prng = ctx.rng(('rt', j))
        ast = progs.gen_program(prng, depth=prng.choice((0, 1, 2, 3, 4)),
                                maxn=prng.choice((2, 4, 6)),
                                sugar=prng.random() < 0.5)
        src, _ = render.render(ast, prng, render.CANON)
        try:
            b = parsing.compile_script(src)
        except BaseException:
            ctx.count('roundtrip.compiler_rejected_source')
            continue
        judge_roundtrip(ctx, b, 'compiler')
        if j % 400 == 0 and len(b) < 200:
            ctx.sample({'bytes': b, 'listing': parsing.decompile_script(b)})
    for j in range(6 if tier == 'quick' else 100):
        src = nonminimal_divmod(rng)
        judge_roundtrip(ctx, parsing.compile_script(src), 'compiler:nonminimal-divmod')
    # boundary pushes
    for n in (1, 2, 127, 128, 129, 255, 256, 257, 32767, 32768, 32769, 65535):
        if (n + i) % of == 0:
            v = bytes(rng.getrandbits(8) for _ in range(min(n, 64)))
            v = (v * (n // len(v) + 1))[:n]
            b = parsing.compile_script(f'push x{v.hex()} true')
            judge_roundtrip(ctx, b, f'compiler:push{n}')
    # builder outputs
    for j in range(2 if tier == 'quick' else 40):
        for name, b in corpus.corpus(ctx.rng(('corpus', j))):
            judge_roundtrip(ctx, b, 'builder:' + name)
            ctx.count('roundtrip.builder_outputs')
    # repository vectors
    if i == 0:
        for f in sorted(glob.glob(os.path.join(env.REPO, 'tests', 'vectors',
                                               '*.hex'))):
            try:
                b = bytes.fromhex(open(f).read().strip())
            except ValueError:
                continue
            judge_roundtrip(ctx, b, 'vector:' + os.path.basename(f))
            ctx.count('roundtrip.vectors')
    # ---- last step of the shard (it changes the process-wide opcode table):
    # byte strings that were decompiled while a code was unassigned are
    # decompiled again after add_soft_fork gave the code a name
    table_change_phase(ctx, 180 + i)


def table_change_phase(ctx, code):
    functions, parsing, tools, _, _ = env.mods()
    name = f'OP_FORKED{code}'
    targets = [bytes([code, 2]), b'\x01\x01' + bytes([code, 2]),
               b'\x01\x2b\x00\x04\x02\x01' + bytes([code, 1]) + b'\x01',
               b'\x29\x00\x00\x02' + bytes([code, 0]) + b'\x2a\x00\x01',
               b'\x3d\x00\x02' + bytes([code, 3]) + b'\x00\x02'
               + bytes([code, 1]),
               # operand bytes past 127 (the NOP reads them signed, the
               # forked op's own handlers unsigned)
               bytes([code, 128]), bytes([code, 200]),
               b'\x01\x2b\x00\x02' + bytes([code, 255]),
               b'\x29\x00\x00\x02' + bytes([code, 129]) + b'\x2a\x00']
    before = []
    for t in targets:
        before.append(parsing.decompile_script(t))
        judge_roundtrip(ctx, t, 'before-table-change')

    def op(tape, stack, cache):
        tape.read(1)
    try:
        tools.add_soft_fork(code, name, op, [])
    except BaseException as e:
        ctx.inconclusive_because(f'add_soft_fork failed: {e!r}'[:200])
        return
    for t, was in zip(targets, before):
        ctx.evaluated()
        case = {'kind': 'table-change', 'code': code, 'b': t}
        try:
            ls = parsing.decompile_script(t)
            rb = parsing.compile_script('\n'.join(ls))
        except BaseException as e:
            ctx.violation('decompile-after-table-change', 'after the code got '
                          'a name, bytes decompiled earlier no longer '
                          'decompile / recompile', case, name, repr(e)[:160])
            continue
        if rb != t or not any(name in ln for ln in ls) or \
                any(f'NOP{code}' in ln for ln in ls):
            ctx.violation('decompile-after-table-change', 'after the code got '
                          'a name, bytes decompiled earlier are still listed '
                          'the old way / do not round-trip', case,
                          name, repr(ls)[:200])
        else:
            ctx.count('table_change.redecompiled_ok')
            ctx.mark_nontrivial(dg(t + b'fork'))


def finalize(agg, tier):
    out = []
    c = agg['counters']
    if not c.get('monitor.tape_reads'):
        out.append('monitored Tape never observed a read (injection '
                   'ineffective)')
    if not c.get('roundtrip.builder_outputs'):
        out.append('no builder output was round-tripped')
    t = agg['tables'].get('termination_outcome', {})
    if not t.get('listing') or len(t) < 2:
        out.append(f'termination outcomes not diverse: {t}')
    return out


def replay(case, ctx):
    if case.get('kind') == 'table-change':
        return table_change_phase(ctx, case['code'])
    if case.get('kind') == 'roundtrip':
        judge_roundtrip(ctx, case['b'], case.get('origin', 'replay'))
    else:
        judge_termination(ctx, case['b'], 'replay')
