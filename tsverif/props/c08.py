"""C08 — scripts can read but never alter interpreter-owned cache values.

The cache handed to run_tape is a dict subclass that logs every mutation (key,
key type, operation) in order; the log is checked offline: no set / delete on a
str key of the initial cache, no str key created (except the interpreter's own
control key 'returned' = True), and the end state of every embedder entry is
deep-equal to a snapshot taken before the run — including runs that fail. The
public entry points are checked for end-state and caller-dict immutability.
"""
from __future__ import annotations
import copy
import hashlib

import nacl.bindings as nb

from .. import env, instr
from ..ref import isa

ID = 'C08'
RULE = ('programs built from the cache-writing paths (WRITE_CACHE, POP0/POP1, '
        'TRY/EXCEPT b"E", INVOKE b"IR", DERIVE_SCALAR/POINT, adapter ops, '
        'SIGN/SIGN_STACK, RETURN) with keys spelling the protected names in '
        'every encoding a script can produce (ascii, upper, NUL-padded, '
        'UTF-16/32, length-prefixed, via RCS with a popped key), wrapped in '
        'IF/TRY/LOOP/DEF/EVAL, failing and succeeding, all flags on/off, '
        'initial caches with sigfields, timestamp and str keys shadowing '
        'script registers. distinct = by (script, cache keys, flags); '
        'non-trivial = >= 1 logged cache write whose key spells a protected '
        'name'
        ' [plus half of the runs under configured limits (items 1-16, sizes 8-4096, call limit 1-128) in the recorded run and both public entry points, timestamps of odd types]')
ASSUMPTIONS = [
    'no plugin or contract installed other than a pure recording contract',
    "the interpreter's own control key 'returned' (value True) is the only "
    'str key it may set / delete; it is never part of an initial cache',
]
NSH = 16
NCASE = {'quick': 48_000, 'thorough': 1_500_000}
O = isa.op

PROTECTED = ['sigfield1', 'sigfield2', 'sigfield8', 'timestamp', 'extra',
             'P', 'E', 'x', 'X', 'IR', 's', 't', 'T', 'R', 'sa', 'RT', 'r',
             'returned', 'ts_threshold']


def shards(tier, seed):
    return [{'shard': i, 'of': NSH} for i in range(NSH)]


def rbytes(rng, n):
    return bytes(rng.getrandbits(8) for _ in range(n))


def spellings(name: str):
    b = name.encode()
    return [b, b.upper(), b + b'\x00', b'\x00' + b, name.encode('utf-16-le'),
            name.encode('utf-16'), name.encode('utf-32-be'),
            bytes([len(b)]) + b, b[:-1], b + b' ', b.title()]


def spells_protected(key) -> bool:
    if not isinstance(key, (bytes, bytearray)):
        return False
    k = bytes(key)
    for enc in ('utf-8', 'utf-16', 'utf-16-le', 'utf-32-be'):
        try:
            s = k.decode(enc)
        except (UnicodeDecodeError, ValueError):
            continue
        s = s.strip('\x00 ').lower()
        if any(s == p.lower() or (len(s) > 2 and p.lower().startswith(s))
               for p in PROTECTED):
            return True
    if len(k) > 1 and k[1:].decode('latin1').lower() in \
            [p.lower() for p in PROTECTED]:
        return True
    return False


class Recorder:
    """pure recording contract (CanBeInvoked)"""
    calls = 0

    def abi(self, args):
        Recorder.calls += 1
        return [b'r' + bytes([len(args) & 0xff])]


CID = b'\xc1' * 4
SEED = bytes(range(32))
SCALAR = nb.crypto_core_ed25519_scalar_reduce(bytes(range(64)))
TPOINT = nb.crypto_scalarmult_ed25519_base_noclamp(SCALAR)


def key_for(rng) -> bytes:
    r = rng.random()
    if r < 0.75:
        return rng.choice(spellings(rng.choice(PROTECTED)))
    if r < 0.9:
        return rng.choice((b'k', b'P', b'E', b'', b'\x00'))
    return rbytes(rng, rng.randrange(1, 12))


def snippet(rng) -> bytes:
    k = rng.choice(('write', 'write', 'write', 'pop0', 'pop1', 'try', 'invoke',
                    'getval_op', 'getval_op',
                    'dscalar', 'dpoint', 'sign', 'sign_stack', 'masu', 'masv',
                    'das', 'rcs', 'rc', 'getval', 'getmsg', 'cts', 'cts', 'flag',
                    'ret', 'checksig', 'write_stackkey', 'template',
                    'template'))
    if k == 'write':
        key = key_for(rng)[:255]
        n = rng.randrange(0, 3)
        return b''.join(isa.push(rbytes(rng, rng.choice((1, 4, 8))))
                        for _ in range(n)) + O('WRITE_CACHE') \
            + bytes([len(key)]) + key + bytes([n])
    if k == 'getval_op':
        # read an embedder value and run a value-transforming op on it (a
        # mutable embedder value must never be altered through the stack)
        name = rng.choice(('sigfield1', 'sigfield2', 'extra', 'timestamp',
                           'P', 'x')).encode()
        other = rbytes(rng, rng.choice((1, 40, 64)))
        tail = rng.choice((
            isa.push(other) + O('XOR'), isa.push(other) + O('OR'),
            isa.push(other) + O('AND'), isa.push(other) + O('CONCAT'),
            O('NOT'), O('DUP') + O('CONCAT'), isa.push(other) + O('SWAP2')
            + O('XOR'), isa.push(b'\x01') + O('SPLIT'), O('SHA256'),
            isa.push(other) + O('SWAP2') + O('AND'), O('REVERSE') + b'\x01',
            O('WRITE_CACHE') + b'\x01k\x01' + O('READ_CACHE') + b'\x01k'
            + isa.push(other) + O('OR')))
        return O('GET_VALUE') + bytes([len(name)]) + name + tail
    if k == 'pop0':
        return isa.push(rbytes(rng, 3)) + O('POP0')
    if k == 'pop1':
        n = rng.randrange(0, 3)
        return isa.push(b'\x01') * n + O('POP1') + bytes([n])
    if k == 'try':
        return isa.TRY(O('FALSE') + O('VERIFY'),
                       rng.choice((b'', O('READ_CACHE') + b'\x01E' + O('POP0'))))
    if k == 'invoke':
        return isa.push(b'a') + isa.push(b'\x01') + isa.push(CID) + O('INVOKE') \
            + O('POP0')
    if k == 'dscalar':
        return isa.push(SEED) + O('DERIVE_SCALAR') + O('POP0')
    if k == 'dpoint':
        return isa.push(SCALAR) + O('DERIVE_POINT') + O('POP0')
    if k == 'sign':
        return isa.push(SEED) + O('SIGN') + bytes([rng.choice(
            (0, 1, 255, rng.getrandbits(8)))]) + O('POP0')
    if k == 'sign_stack':
        return isa.push(b'msg') + isa.push(SEED) + O('SIGN_STACK') + O('POP0')
    if k == 'masu':
        return isa.push(SEED) + isa.push(b'm') + isa.push(TPOINT) \
            + O('MAKE_ADAPTER_SIG_PUBLIC') + O('POP1') + b'\x02'
    if k == 'masv':
        return isa.push(b'm') + isa.push(SCALAR) + isa.push(SEED) \
            + O('MAKE_ADAPTER_SIG_PRIVATE') + O('POP1') + b'\x03'
    if k == 'das':
        return isa.push(SCALAR) + isa.push(TPOINT) + isa.push(SCALAR) \
            + O('DECRYPT_ADAPTER_SIG') + O('POP1') + b'\x02'
    if k == 'rcs':
        key = key_for(rng)
        return isa.push(key or b'\x00') + rng.choice((
            O('READ_CACHE_STACK_SIZE') + O('POP0'),
            O('READ_CACHE_STACK')))
    if k == 'rc':
        key = key_for(rng)[:255]
        return O('READ_CACHE_SIZE') + bytes([len(key)]) + key + O('POP0')
    if k == 'getval':
        name = rng.choice(PROTECTED).encode()
        return O('GET_VALUE') + bytes([len(name)]) + name
    if k == 'getmsg':
        return O('GET_MESSAGE') + bytes([rng.getrandbits(8)]) + O('POP0')
    if k == 'cts':
        c = rng.choice((b'\x01', (env.NOW0 - 10).to_bytes(4, 'big'),
                        (env.NOW0 + 10**6).to_bytes(5, 'big')))
        return isa.push(c) + rng.choice((
            O('CHECK_TIMESTAMP') + O('POP0'), O('CHECK_TIMESTAMP_VERIFY'),
            O('CHECK_EPOCH') + O('POP0'), O('CHECK_EPOCH_VERIFY')))
    if k == 'flag':
        name = rng.choice((b'\x01', b'ts_threshold', b'timestamp', b'\x09',
                           b'1', b'returned'))
        return rng.choice((O('SET_FLAG'), O('UNSET_FLAG'))) \
            + bytes([len(name)]) + name
    if k == 'ret':
        return O('RETURN')
    if k == 'checksig':
        return isa.push(bytes(64)) + isa.push(TPOINT) + O('CHECK_SIG') \
            + b'\x00' + O('POP0')
    if k == 'template':
        # any flag byte (naming present AND absent sigfields), one template
        # per named field, plain and _VERIFY form
        fl = rng.choice((1, 1, 2, 4, 3, 0x80, 0xff, rng.getrandbits(8)))
        n = bin(fl).count('1')
        if rng.random() < 0.7:
            return isa.push(b'abc') * n + O('CHECK_TEMPLATE') + bytes([fl]) \
                + O('POP0')
        return isa.push(b'abc') * n + O('CHECK_TEMPLATE_VERIFY') + bytes([fl])
    # write_stackkey: copy a protected value under a protected-looking key
    key = key_for(rng)[:255]
    name = rng.choice(('sigfield1', 'timestamp')).encode()
    return O('GET_VALUE') + bytes([len(name)]) + name + O('WRITE_CACHE') \
        + bytes([len(key)]) + key + b'\x01'


def wrap(rng, body: bytes) -> bytes:
    k = rng.choice(('none', 'none', 'if', 'else', 'try', 'except', 'loop',
                    'def', 'eval'))
    if k == 'none':
        return body
    if k == 'if':
        return O('TRUE') + isa.IF(body)
    if k == 'else':
        return O('FALSE') + isa.IF_ELSE(O('TRUE'), body)
    if k == 'try':
        return isa.TRY(body, b'')
    if k == 'except':
        return isa.TRY(O('FALSE') + O('VERIFY'), body)
    if k == 'loop':
        return O('TRUE') + isa.LOOP(O('POP0') + body + O('FALSE')) + O('POP0')
    if k == 'def':
        return isa.DEF(1, body) + isa.CALL(1)
    return isa.push(body or O('TRUE')) + O('EVAL')


def gen_case(rng):
    parts = []
    for _ in range(rng.randrange(1, 6)):
        b = snippet(rng)
        if rng.random() < 0.4:
            b = wrap(rng, b)
            if rng.random() < 0.2:
                b = wrap(rng, b)
        parts.append(b)
    script = b''.join(parts)
    r = rng.random()
    if r < 0.15:
        script += O('FALSE') + O('VERIFY')          # failing run
    elif r < 0.25 and script:
        script = script[:rng.randrange(1, len(script) + 1)]   # truncated
    cache = {}
    for i in range(1, 9):
        if rng.random() < 0.5:
            cache[f'sigfield{i}'] = rbytes(rng, rng.choice((0, 3, 32)))
    cache['sigfield1'] = cache.get('sigfield1', b'abc')
    # embedders may hand over mutable values (bytearray is an accepted value
    # type of GET_VALUE and works as a sigfield)
    for k_ in list(cache):
        if rng.random() < 0.2:
            cache[k_] = bytearray(cache[k_])
    if rng.random() < 0.5:
        # ints, and what an embedder may hand over by mistake or from a JSON
        # file (float, bool, numeric text): whatever it is stays what it is
        cache['timestamp'] = rng.choice((0, env.NOW0, env.NOW0 + 5, env.NOW0,
                                         float(env.NOW0) + 0.75, 1.5e9,
                                         True, str(env.NOW0), None))
    for name in ('extra', 'P', 'E', 'x', 'X', 'IR', 's', 't', 'T', 'R', 'sa',
                 'RT', 'r'):
        if rng.random() < 0.2:
            cache[name] = rng.choice((b'emb', [b'a', b'b'], 7, 'text', 1.5,
                                      [b'only'], bytearray(b'mutable'),
                                      [5, 7.5, 'bob'], [1, b'x', 'y', 2.0],
                                      (3, 'tuple', 1.25), ['s'], [0],
                                      [bytearray(b'm1'), b'i2'],
                                      (b't1', bytearray(b't2'))))
    for bk in (b'k', b'P', b'sigfield1', b'timestamp'):
        if rng.random() < 0.15:
            cache[bk] = [b'bytes-keyed']
    flags = {}
    if rng.random() < 0.4:
        for f in range(11):
            if rng.random() < 0.5:
                flags[f] = rng.random() < 0.5
    # the limits the verifier configured for the run (they bound the stack,
    # not what the embedder put into the cache)
    limits = None
    if rng.random() < 0.5:
        limits = [rng.choice((1, 2, 3, 5, 8, 16, 1024)),
                  rng.choice((8, 32, 64, 1024, 4096)),
                  rng.choice((1, 4, 128))]
    return {'script': script, 'cache': cache, 'flags': flags,
            'limits': limits}


def str_part(d):
    return {k: copy.deepcopy(v) for k, v in d.items() if type(k) is str}


def same(a, b) -> bool:
    return type(a) is type(b) and a == b and (
        not isinstance(a, list) or all(same(x, y) for x, y in zip(a, b)))


def judge(ctx, case):
    functions = env.mods()[0]
    script, vals, flags = case['script'], case['cache'], case['flags']
    env.Clock.now = env.NOW0
    ctx.evaluated()
    initial = {'timestamp': env.NOW0, **copy.deepcopy(vals)}
    snap = str_part(initial)
    rec = instr.RecDict(copy.deepcopy(initial))
    tape = functions.Tape(script)
    tape.contracts = {CID: Recorder()}
    tape.plugins = {k: list(v) for k, v in functions._plugins.items()}
    lim = case.get('limits')
    kw = {}
    stack = functions.Stack()
    if lim:
        kw = {'stack_max_items': lim[0], 'stack_max_item_size': lim[1],
              'callstack_limit': lim[2]}
        stack = functions.Stack(max_items=lim[0], max_item_size=lim[1])
        tape.callstack_limit = lim[2]
        ctx.count('runs_under_configured_limits')
    exc = None
    try:
        functions.run_tape(tape, stack, rec, additional_flags=dict(flags))
    except BaseException as e:
        exc = e
    ctx.tab('outcome', 'ok' if exc is None else 'error')
    ctx.count('monitor.cache_log_events', len(rec.log))
    nt = False
    for op, key, val in rec.log:
        ctx.tab('logged_op', f'{op}:{type(key).__name__}')
        if spells_protected(key) and op == 'set':
            nt = True
        if type(key) is str:
            if key == 'returned' and key not in snap and (
                    (op == 'set' and val is True) or op in ('del', 'pop')):
                continue
            if op == 'set' and key in snap and same(val, snap[key]):
                ctx.count('benign_same_value_reassignments')
                continue            # value unchanged at this step: not altered
            kind = 'str-key-overwritten' if key in snap else 'str-key-created'
            if op in ('del', 'pop', 'popitem', 'clear'):
                kind = 'str-key-deleted'
            ctx.violation(kind, f'cache {op} on str key {key!r} during '
                          'execution', case, 'no write to str keys',
                          f'{op} {key!r} = {val!r}'[:160])
            return
        elif op == 'clear':
            ctx.violation('cache-cleared', 'cache.clear() during execution',
                          case)
            return
        elif not isinstance(key, bytes):
            ctx.violation('non-bytes-key-created', f'cache {op} with a key of '
                          f'type {type(key).__name__}', case, 'bytes keys',
                          repr(key)[:80])
            return
    for k, v in snap.items():
        if k not in rec or not same(rec[k], v):
            ctx.violation('embedder-entry-changed', f'str-keyed entry {k!r} '
                          'differs from its snapshot after the run (in-place '
                          'mutation or replacement)', case, repr(v)[:80],
                          repr(rec.get(k))[:80])
            return
    for k in rec:
        if type(k) is str and k not in snap and k != 'returned':
            ctx.violation('str-key-created', f'str key {k!r} exists after the '
                          'run', case)
            return
    # public entry points: end state + caller's dict untouched
    caller = copy.deepcopy(vals)
    before = copy.deepcopy(caller)
    try:
        _, _, out = functions.run_script(script, caller, {CID: Recorder()},
                                         additional_flags=dict(flags), **kw)
        want = {'timestamp': env.NOW0, **before}
        for k, v in str_part(want).items():
            if k not in out or not same(out[k], v):
                ctx.violation('embedder-entry-changed', 'run_script returned '
                              f'a cache whose {k!r} differs from the supplied '
                              'value', case, repr(v)[:80],
                              repr(out.get(k))[:80])
                break
    except BaseException:
        pass
    if not all(k in caller and same(caller[k], v) for k, v in before.items()) \
            or len(caller) != len(before):
        ctx.violation('caller-dict-modified', "run_script modified the "
                      "caller's cache_vals", case, repr(before)[:120],
                      repr(caller)[:120])
        return
    try:
        functions.run_auth_scripts([script], caller, {CID: Recorder()}, **kw)
    except BaseException as e:
        ctx.violation('auth-raised', 'run_auth_scripts raised', case, 'bool',
                      repr(e)[:100])
    if not all(k in caller and same(caller[k], v) for k, v in before.items()) \
            or len(caller) != len(before):
        ctx.violation('caller-dict-modified', "run_auth_scripts modified the "
                      "caller's cache_vals", case, repr(before)[:120],
                      repr(caller)[:120])
        return
    # what the embedder supplied is there for EVERY script of an
    # authorization: a later script reads each str-keyed entry exactly as a
    # single script does (the probe's verdict says whether GET_VALUE could
    # read it; the scripts before it touch nothing)
    if len(script) % 4 == 0:
        from ..gen import auth as _auth
        neutral = isa.op('TRUE') + isa.op('POP0')
        for k in [k for k in before if type(k) is str][:6]:
            kb = k.encode()
            if not 0 < len(kb) < 256:
                continue
            probe = isa.op('GET_VALUE') + bytes([len(kb)]) + kb
            # ... and reads the same VALUE: what a single script gets is
            # compared item by item by the later script itself
            try:
                got = list(functions.run_script(
                    probe, copy.deepcopy(before),
                    {CID: Recorder()})[1].deque)
            except BaseException:
                got = None
            if got is not None and 0 < len(got) <= 8 and \
                    all(len(x) < 200 for x in got):
                for x in reversed(got):
                    probe += isa.push(bytes(x)) + isa.op('EQUAL_VERIFY')
                probe += isa.op('TRUE')
                ctx.count('later_script_value_comparisons')
            probe += _auth.sweeper()
            seen = []
            for pre in (0, 1, 2):
                try:
                    seen.append(functions.run_auth_scripts(
                        [neutral] * pre + [probe], copy.deepcopy(before),
                        {CID: Recorder()}))
                except BaseException as e:
                    seen.append(repr(e)[:40])
            ctx.count('later_script_reads_of_embedder_entries')
            if len(set(map(repr, seen))) != 1:
                ctx.violation('embedder-entry-gone-for-later-script',
                              f'str-keyed entry {k!r}: GET_VALUE in the 1st / '
                              '2nd / 3rd script of an authorization gives '
                              f'{seen} (the scripts before it only push and '
                              'pop)', case, 'the same verdict', seen)
                return
    if nt:
        ctx.mark_nontrivial(hashlib.blake2b(
            script + repr(sorted(map(repr, vals))).encode()
            + repr(sorted(flags.items())).encode(), digest_size=8).digest())
        ctx.count('cases_writing_protected_spelling')


class ReadLog(dict):
    """cache that records which BYTE-STRING keys are consulted (read or
    tested for presence): those are the entries a script can write"""

    def __init__(self, *a, **kw):
        super().__init__(*a, **kw)
        self.consulted = []

    def _note(self, k):
        if isinstance(k, (bytes, bytearray)):
            self.consulted.append(bytes(k))

    def __getitem__(self, k):
        self._note(k)
        return super().__getitem__(k)

    def get(self, k, d=None):
        self._note(k)
        return super().get(k, d)

    def __contains__(self, k):
        self._note(k)
        return super().__contains__(k)


def judge_message_sources(ctx, rng):
    """the message a signature instruction works on comes from the
    embedder's str-keyed sigfields alone: while GET_MESSAGE / SIGN /
    CHECK_SIG / CHECK_SIG_VERIFY / CHECK_MULTISIG run, no byte-string keyed
    (script-writable) entry is consulted - whatever it is called"""
    functions = env.mods()[0]
    from ..ref import sigmsg
    seed = bytes(rng.getrandbits(8) for _ in range(32))
    pk = sigmsg.pubkey(seed)
    f = rng.choice((0, 0, 1, 0x82, 0x10))
    fields = {f'sigfield{k}': bytes(rng.getrandbits(8) for _ in range(6))
              for k in rng.sample(range(1, 9), 4)}
    sig = sigmsg.sign(seed, sigmsg.message(fields, f)) \
        + (bytes([f]) if f else b'')
    P = isa.push
    for name, prog in (
            ('GET_MESSAGE', isa.op('GET_MESSAGE') + bytes([f])),
            ('SIGN', P(seed) + isa.op('SIGN') + bytes([f])),
            ('CHECK_SIG', P(sig) + P(pk) + isa.op('CHECK_SIG') + bytes([f])),
            ('CHECK_SIG_VERIFY', P(sig) + P(pk) + isa.op('CHECK_SIG_VERIFY')
             + bytes([f])),
            ('CHECK_MULTISIG', P(sig) + P(pk) + isa.op('CHECK_MULTISIG')
             + bytes([f, 1, 1]))):
        ctx.evaluated()
        ctx.count('message_source_probes')
        cache = ReadLog({'timestamp': env.NOW0, **fields})
        tape = functions.Tape(prog)
        tape.plugins = {k: list(v) for k, v in functions._plugins.items()}
        try:
            functions.run_tape(tape, functions.Stack(), cache)
        except BaseException:
            pass
        if cache.consulted:
            ctx.violation('signature-instruction-consults-script-writable-key',
                          f'{name} (flag {f:#04x}) consulted the byte-string '
                          f'keyed entries {sorted(set(cache.consulted))!r}: a '
                          'script can write those, so a witness can steer the '
                          'message a signature is checked against',
                          {'kind': 'message-source', 'instr': name, 'f': f},
                          'str keys only', sorted(set(cache.consulted)))
            return


def run_shard(spec, ctx):
    i, of = spec['shard'], spec['of']
    n = NCASE[ctx.tier] // of
    for j in range(n):
        case = gen_case(ctx.rng(j))
        judge(ctx, case)
        if j % 400 == 0 and len(case['script']) < 100:
            ctx.sample(case)
    for j in range(20):
        judge_message_sources(ctx, ctx.rng(('msgsrc', j)))
    ctx.count('recording_contract_calls', Recorder.calls)


def finalize(agg, tier):
    out = []
    c = agg['counters']
    if not c.get('monitor.cache_log_events'):
        out.append('cache recorder logged nothing')
    if not c.get('cases_writing_protected_spelling'):
        out.append('no case wrote a key spelling a protected name')
    ops = agg['tables'].get('logged_op', {})
    if not ops.get('set:bytes') or not ops.get('set:str'):
        out.append(f'log never saw both bytes and control-key sets: {ops}')
    return out


def replay(case, ctx):
    if case.get('kind') == 'message-source':
        for j in range(20):
            judge_message_sources(ctx, ctx.rng(('msgsrc', j)))
        return
    judge(ctx, case)
