"""C14 — delegation locks honour the certificate key, time window and
delegability.

The real delegate-key lock / chain lock and their witness + certificate
builders run with the verifier clock pinned; the oracle is the predicate of the
statement evaluated on parsed certificate bytes with Ed25519 decided outside
tapescript.
"""
from __future__ import annotations
import hashlib

from .. import env
from ..ref import isa, sigmsg

ID = 'C14'
BUILDER_DEFAULTS = True     # tools.* goes through tsverif/omit.py
RULE = ('chains of length 1..6 (single lock for length 1 as well); begin/end '
        'placed so that t hits begin-1, begin, begin+1, end-1, end, end+1 for '
        'each link in turn; t on both sides of now+threshold; all may-delegate '
        'patterns; corruptions: bit flip in every certificate field of every '
        'link, certificate signed by the wrong link, reordered certificates, '
        'splice from another chain sharing keys, final signature by a '
        'non-final delegate, non-permitted flag; Certificate pack/unpack over '
        'field ranges. distinct = by (lock, witness, t, now); non-trivial = a '
        'boundary timestamp, a corruption, or chain length >= 3'
        ' [plus a configured slack threshold (5/10/600/100000, process-wide or per run) with the clock at the configured boundary, script witnesses against the chain lock, builder witnesses re-marked with multi-byte continuation markers, flag-not-permitted scenarios, registers-off processes]')
ASSUMPTIONS = [
    'verifier clock pinned; default ts_threshold = 60',
    'certificate timestamps in 0 <= ts < 2^31',
    'libsodium called directly decides certificate / sigfield signatures',
]
NSH = 16
NCHAIN = {'quick': 6000, 'thorough': 180_000}
T0 = 1_600_000_000


def shards(tier, seed):
    return [{'shard': i, 'of': NSH} for i in range(NSH)]


def rbytes(rng, n):
    return bytes(rng.getrandbits(8) for _ in range(n))


def parse_cert(c: bytes):
    if len(c) != 105:
        return None
    return {'dpk': c[:32], 'b': int.from_bytes(c[32:36], 'big'),
            'e': int.from_bytes(c[36:40], 'big'), 'can': c[40],
            'pre': c[:41], 'sig': c[41:]}


class Cfg:
    """the slack threshold the verifier configured and how: 'default' (60,
    nothing configured), 'global' (functions.flags['ts_threshold']), 'per-run'
    (additional_flags of run_script over witness + lock)"""
    slack = 60
    mode = 'default'


def model_chain(K, certs_rootfirst, final_sig, fields, allowed, t, now,
                chain_lock=True):
    """predicate of the statement"""
    prev = K
    n = len(certs_rootfirst)
    if n == 0:
        return False
    for i, c in enumerate(certs_rootfirst):
        p = parse_cert(c)
        if p is None:
            return False
        if not sigmsg.valid_fast(prev, p['pre'], p['sig']):
            return False
        if not (p['b'] <= t < p['e']):
            return False
        if not (t - now < Cfg.slack):
            return False
        if chain_lock and i < n - 1 and p['can'] == 0:
            return False
        prev = p['dpk']
    if len(final_sig) not in (64, 65):
        return False
    f = final_sig[64] if len(final_sig) == 65 else 0
    if f & ~allowed & 0xff:
        return False
    return sigmsg.valid_fast(prev, sigmsg.message(fields, f), final_sig[:64])


def auth(scripts, cache):
    functions = env.mods()[0]
    try:
        ss = [bytes(s) for s in scripts]
        if Cfg.mode == 'per-run':
            # the flags of ONE run: run_script takes them (witness and lock
            # in one script; the witnesses here only push data)
            _, stack, _ = functions.run_script(
                b''.join(ss), dict(cache),
                additional_flags={'ts_threshold': Cfg.slack},
                **env.roomy_limits(*ss))
            return list(stack.deque) == [b'\xff']
        return functions.run_auth_scripts(ss, dict(cache),
                                          **env.roomy_limits(*ss))
    except BaseException as e:
        return e


def dg(*x) -> bytes:
    h = hashlib.blake2b(digest_size=8)
    for y in x:
        h.update(repr(y).encode())
    return h.digest()


def sig_of_witness(w: bytes) -> bytes:
    """first pushed item of a delegate witness = the sigfield signature"""
    if w[0] == 0x03:
        return w[2:2 + w[1]]
    return b''


def judge(ctx, name, lock, wit, K, certs_rf, fields, allowed, t, now,
          chain_lock, nontrivial):
    ctx.evaluated()
    env.Clock.now = now
    final_sig = sig_of_witness(bytes(wit))
    want = model_chain(K, certs_rf, final_sig, fields, allowed, t, now,
                       chain_lock)
    got = auth([wit, lock], {**fields, 'timestamp': t})
    env.Clock.now = env.NOW0
    ctx.tab('case', name.split(':')[0])
    ctx.tab('expected', want)
    if (got is True) != want:
        key = ('delegation-accepts:' if got is True else
               'delegation-rejects:') + name.split('#')[0]
        ctx.violation(key, f'{name}: verdict differs from the statement '
                      'predicate', {'name': name, 'lock': bytes(lock),
                                    'witness': bytes(wit), 'K': K,
                                    'certs': list(certs_rf), 'fields': fields,
                                    'allowed': allowed, 't': t, 'now': now,
                                    'chain_lock': chain_lock,
                                    'slack': Cfg.slack, 'mode': Cfg.mode},
                      want,
                      repr(got)[:80])
        return
    if nontrivial:
        ctx.mark_nontrivial(dg(name, bytes(lock), bytes(wit), t, now))


def remark(witness: bytes, marker: bytes) -> bytes:
    """the builder's chain witness with every `true` between two
    certificates replaced by a push of `marker`"""
    from ..ref import asm
    out = b''
    for nd in asm.disassemble(witness):
        if nd[0] == 'op' and nd[1] == 'OP_TRUE':
            out += isa.push(marker)
        elif nd[0] == 'op' and nd[1] == 'OP_FALSE':
            out += isa.op('FALSE')
        elif nd[0] == 'op' and nd[1] in ('OP_PUSH0', 'OP_PUSH1', 'OP_PUSH2'):
            v = nd[2]
            out += isa.push(bytes([v]) if isinstance(v, int) else v)
        else:
            raise ValueError('unexpected instruction in a chain witness')
    return out


def judge_script_witnesses(ctx, rng, lock, honest, K, certs, fields, allowed,
                           t, now, n):
    if Cfg.mode == 'per-run':
        # that mode runs witness and lock as ONE script (run_script takes the
        # flags); it is only meaningful for witnesses that just push data
        return
    O = isa.op
    lock = bytes(lock)
    h = rng.choice((0, 0, 0, 1, 2))
    body = rng.choice((O('POP0') + O('TRUE'), O('TRUE'), b'',
                       O('POP0') + O('POP0') + O('TRUE'),
                       O('POP0') + O('TRUE') + O('RETURN'),
                       O('DEPTH') + O('POP0') + O('POP0') + O('TRUE')))
    keys = rng.choice((b'r', b's', b'c', b'e', b'b', b'd'))
    preset = O('TRUE') + O('WRITE_CACHE') + bytes([1]) + keys + b'\x01'
    honest_ok = model_chain(K, certs, sig_of_witness(honest), fields, allowed,
                            t, now, True)
    outsider = rbytes(rng, 32)
    cases = [
        ('defines-handle', isa.DEF(h, body), False),
        ('defines-handle+true', isa.DEF(h, body) + O('TRUE'), False),
        ('defines-handle+junk', isa.DEF(h, body) + isa.push(rbytes(rng, 64))
         + isa.push(rbytes(rng, 105)), False),
        ('presets-register', preset, False),
        ('returns-early', O('TRUE') + O('RETURN'), False),
        ('true-only', O('TRUE'), False),
        ('empty', b'', False),
        # around the builder's witness: verdict as for the witness alone
        ('defines-handle+honest', isa.DEF(h, body) + honest, honest_ok),
        ('presets-register+honest', preset + honest, honest_ok),
    ]
    for name, w, want in cases:
        ctx.evaluated()
        env.Clock.now = now
        got = auth([w, lock], {**fields, 'timestamp': t})
        env.Clock.now = env.NOW0
        ctx.tab('script_witness', name)
        if (got is True) != want:
            key = ('delegation-accepts:' if got is True else
                   'delegation-rejects:') + 'chain:script-witness:' + name
            ctx.violation(key, f'chain lock, witness script {name} (handle '
                          f'{h}): verdict differs from the statement '
                          'predicate', {'name': 'script-witness:' + name,
                                        'lock': lock, 'witness': w,
                                        'fields': fields, 't': t, 'now': now,
                                        'want': want, 'slack': Cfg.slack,
                                        'mode': Cfg.mode}, want,
                          repr(got)[:80])
        else:
            ctx.mark_nontrivial(dg('script-witness', name, w, lock))


def scenario(ctx, rng, j):
    functions, parsing, tools, _, _ = env.mods()
    t_ = tools
    n = rng.choice((1, 1, 2, 2, 3, 3, 4, 5, 6))
    seeds = [rbytes(rng, 32) for _ in range(n + 1)]      # 0 = root
    pks = [sigmsg.pubkey(s) for s in seeds]
    from ..gen import auth as _auth
    fields = _auth.sigfields(rng, must=(1, 3))
    allowed = rng.choice((0, 0, 1, 4, 5, 0x1a, 0x90, 0xb1, 0xff))
    f = rng.choice([x for x in (0, 1, 4, 5, 0x10, 0x0a, 0x80, 0x90, 0x12,
                                0xb1) if not (x & ~allowed & 0xff)])
    a_hex, f_hex = f'{allowed:02x}', f'{f:02x}'
    t = T0 + rng.randrange(0, 10**6)
    # the smallest timestamps a verifier can supply (begin_ts >= 0)
    small_t = rng.random() < 0.08
    if small_t:
        t = rng.choice((0, 0, 1, 2))
    # windows: all comfortably around t, except one link at a boundary
    edge_link = rng.randrange(n)
    edge = rng.choice(('b-1', 'b', 'b+1', 'e-1', 'e', 'e+1', 'none'))
    if small_t:
        edge = rng.choice(('b-1', 'b', 'e-1', 'none'))
    windows = []
    for i in range(n):
        b, e = t - rng.randrange(1, 5000), t + rng.randrange(1, 5000)
        b = max(b, 0)
        if i == edge_link:
            if edge == 'b-1':
                b = t + 1
            elif edge == 'b':
                b = t
            elif edge == 'b+1':
                b = t - 1
            elif edge == 'e-1':
                e = t + 1
            elif edge == 'e':
                e = t
            elif edge == 'e+1':
                e = max(b + 1, t - 1) if b < t - 1 else t - 1
                if e <= b:
                    b = e - 1
        windows.append((b, e))
    # certificates valid "from the beginning" (begin_ts == 0) in every link:
    # the clock test still applies to them
    if not small_t and edge in ('e-1', 'e', 'e+1', 'none') and \
            rng.random() < 0.15:
        windows = [(0, e) for b, e in windows]
        ctx.count('chains_with_begin_zero_everywhere')
    cans = [rng.random() < 0.8 for _ in range(n)]
    if rng.random() < 0.5:
        cans = [True] * (n - 1) + [rng.random() < 0.5]
    certs = []          # root first
    for i in range(n):
        c = t_.make_delegate_key_cert(seeds[i], pks[i + 1], windows[i][0],
                                      windows[i][1], cans[i])
        certs.append(c.pack())
    sl = Cfg.slack
    now = rng.choice((t, t, t, t - sl + 1, t - sl, t - sl - 1, t + 100,
                      t - 10**6, t - 59, t - 60, t - 61))
    if small_t:
        now = rng.choice((t, t + 100, T0))
    chain_lock = t_.make_delegate_key_chain_lock(pks[0], a_hex)
    wit = t_.make_delegate_key_chain_witness(seeds[n], list(reversed(certs)),
                                             fields, f_hex)
    nt = n >= 3 or edge != 'none' or now != t
    judge(ctx, f'chain:honest:{edge}#{n}', chain_lock, wit, pks[0], certs,
          fields, allowed, t, now, True, nt)
    if n == 1:
        lock1 = t_.make_delegate_key_lock(pks[0], a_hex)
        w1 = t_.make_delegate_key_witness(seeds[1], certs[0], fields, f_hex)
        judge(ctx, f'single:honest:{edge}', lock1, w1, pks[0], certs, fields,
              allowed, t, now, False, nt)
    # corruptions are judged with a benign clock so that only the corrupted
    # dimension decides (the model still evaluates everything)
    now2 = t
    which = rng.randrange(n)
    c = bytearray(certs[which])
    field = rng.choice(('dpk', 'b', 'e', 'can', 'sig'))
    lo, hi = {'dpk': (0, 32), 'b': (32, 36), 'e': (36, 40), 'can': (40, 41),
              'sig': (41, 105)}[field]
    c[rng.randrange(lo, hi)] ^= 1 << rng.randrange(8)
    bad = list(certs)
    bad[which] = bytes(c)
    variants = [(f'corrupt-{field}', bad, seeds[n])]
    if n >= 2:
        # certificate signed by the wrong link (skip one signer)
        k = rng.randrange(1, n)
        wrong = list(certs)
        wrong[k] = t_.make_delegate_key_cert(
            seeds[k - 1], pks[k + 1], windows[k][0], windows[k][1],
            cans[k]).pack()
        variants.append(('wrong-signer', wrong, seeds[n]))
        re = list(certs)
        a, b_ = rng.sample(range(n), 2)
        re[a], re[b_] = re[b_], re[a]
        variants.append(('reordered', re, seeds[n]))
        variants.append(('dropped-link', certs[:k - 1] + certs[k:], seeds[n])
                        if k - 1 >= 0 else ('dropped-link', certs[1:],
                                            seeds[n]))
        # final signature by a non-final delegate
        variants.append(('non-final-signer', certs, seeds[rng.randrange(1, n)]))
        # a non-final certificate that forbids further delegation
        k = rng.randrange(0, n - 1)
        nd = list(certs)
        nd[k] = t_.make_delegate_key_cert(
            seeds[k], pks[k + 1], windows[k][0], windows[k][1], False).pack()
        variants.append(('non-final-no-delegate', nd, seeds[n]))
    # splice from another chain that shares the delegate keys but has another
    # root
    other_root = rbytes(rng, 32)
    sp = list(certs)
    sp[0] = t_.make_delegate_key_cert(other_root, pks[1], windows[0][0],
                                      windows[0][1], True).pack()
    variants.append(('foreign-root-cert', sp, seeds[n]))
    variants.append(('outsider-final-signer', certs, rbytes(rng, 32)))
    # widened window forged by the delegate itself (self-signed replacement)
    if n >= 1:
        k = rng.randrange(n)
        fw = list(certs)
        fw[k] = t_.make_delegate_key_cert(
            seeds[k + 1], pks[k + 1], 0, 2**31 - 1, True).pack()
        variants.append(('self-signed-cert', fw, seeds[n]))
    for name, cs, signer in variants:
        try:
            w = t_.make_delegate_key_chain_witness(
                signer, list(reversed(cs)), fields, f_hex)
        except BaseException:
            continue
        judge(ctx, f'chain:{name}#{n}', chain_lock, w, pks[0], cs, fields,
              allowed, t, now2, True, True)
        if n == 1 and len(cs) == 1:
            lock1 = t_.make_delegate_key_lock(pks[0], a_hex)
            w1 = t_.make_delegate_key_witness(signer, cs[0], fields, f_hex)
            judge(ctx, f'single:{name}', lock1, w1, pks[0], cs, fields,
                  allowed, t, now2, False, True)
    # the "another certificate follows" marker between two certificates is
    # any true value, not only the one byte the builder writes: with a longer
    # one (first byte non-zero) the verdict is the same - in particular a
    # non-final certificate that forbids further delegation still stops it
    if n >= 2:
        marker = rng.choice((b'\xff\xff', b'\xff\x00', b'\x01\xff',
                             b'\x80\x00\x00', b'\x03\xe8', b'\xff' * 8))
        for name, cs, signer in [('honest', certs, seeds[n])] + [
                v for v in variants if v[0] in ('non-final-no-delegate',
                                                'wrong-signer')]:
            try:
                w = remark(bytes(t_.make_delegate_key_chain_witness(
                    signer, list(reversed(cs)), fields, f_hex)), marker)
            except BaseException:
                continue
            judge(ctx, f'chain:{name}:long-marker#{n}', chain_lock, w, pks[0],
                  cs, fields, allowed, t, now2, True, True)
    # non-permitted flag
    free = [b for b in range(8) if not (allowed >> b) & 1]
    if free:
        g = f | (1 << free[j % len(free)])
        try:
            w = t_.make_delegate_key_chain_witness(
                seeds[n], list(reversed(certs)), fields, f'{g:02x}')
            judge(ctx, f'chain:flag-not-permitted#{n}', chain_lock, w, pks[0],
                  certs, fields, allowed, t, now2, True, True)
            if n == 1 and len(certs) == 1:
                lock1 = t_.make_delegate_key_lock(pks[0], a_hex)
                w1 = t_.make_delegate_key_witness(seeds[n], certs[0], fields,
                                                  f'{g:02x}')
                judge(ctx, 'single:flag-not-permitted', lock1, w1, pks[0],
                      certs, fields, allowed, t, now2, False, True)
        except BaseException:
            pass
    # a witness is a SCRIPT: one that brings its own definitions / cache
    # entries / early return instead of (or around) a certificate and a
    # signature is no (certificate, signature) pair by K - and around a valid
    # pair it changes nothing
    if j % 2 == 0:
        judge_script_witnesses(ctx, rng, chain_lock, bytes(wit), pks[0],
                               certs, fields, allowed, t, now2, n)
    # covered field changed at check time
    f2 = dict(fields)
    f2['sigfield3'] = fields['sigfield3'] + b'!'
    ctx.evaluated()
    env.Clock.now = now2
    w = t_.make_delegate_key_chain_witness(seeds[n], list(reversed(certs)),
                                           fields, f_hex)
    want = model_chain(pks[0], certs, sig_of_witness(bytes(w)), f2, allowed, t,
                       now2)
    got = auth([w, chain_lock], {**f2, 'timestamp': t})
    env.Clock.now = env.NOW0
    if (got is True) != want:
        ctx.violation('delegation-field-change', 'covered sigfield changed '
                      'between signing and checking', {'name': 'field-change'},
                      want, repr(got)[:60])
    if j % 100 == 0:
        ctx.sample({'n': n, 'edge': edge, 'edge_link': edge_link,
                    'cans': cans, 'lock': bytes(chain_lock)})


def judge_cert_roundtrip(ctx, rng):
    tools = env.mods()[2]
    for _ in range(40):
        ctx.evaluated()
        b = rng.choice((0, 1, 127, 128, 255, 256, 65535, 65536, 2**24 - 1,
                        2**24, 2**31 - 1, rng.randrange(2**31)))
        e = rng.choice((0, 1, 255, 256, 2**31 - 1, rng.randrange(2**31)))
        can = rng.random() < 0.5
        c = tools.Certificate(rbytes(rng, 32), b, e, can, rbytes(rng, 64))
        try:
            p = c.pack()
            c2 = tools.Certificate.unpack(p)
        except BaseException as ex:
            ctx.violation('certificate-roundtrip-raised', repr(ex)[:100],
                          {'name': 'cert', 'b': b, 'e': e, 'can': can})
            continue
        pc = parse_cert(p)
        ok = (c2 == c and pc is not None and pc['b'] == b and pc['e'] == e
              and pc['dpk'] == c.delegate_pubkey
              and (pc['can'] == 0xff) == can and pc['sig'] == c.signature)
        if not ok:
            ctx.violation('certificate-roundtrip', 'unpack(pack(c)) != c or '
                          'the layout is not key|begin|end|can|sig',
                          {'name': 'cert', 'b': b, 'e': e, 'can': can},
                          repr(c)[:100], repr(c2)[:100])
        elif b >= 2**24 or e >= 2**24 or b < 256:
            ctx.mark_nontrivial(dg('cert', b, e, can))


def run_shard(spec, ctx):
    i, of = spec['shard'], spec['of']
    n = NCHAIN[ctx.tier] // of
    for j in range(n):
        # a quarter of the scenarios live in a process configured with every
        # register export off (functions.flags[1..9] = False): locks and
        # builders work on the stack, not on the registers
        off = j % 4 == 1
        ctx.tab('registers', 'off' if off else 'default')
        # ... and another quarter with an embedder signature extension
        # registered for the whole process (it rewrites sigfield1 once per
        # signature-related instruction, for builders and locks alike)
        ext = False     # (C14's model verifies the delegate signature itself)
        ctx.tab('signature_extension', 'registered' if ext else 'none')
        if ext:
            import tapescript
            tapescript.add_signature_extension(env.rewriting_extension)
        # a third of the scenarios under a slack threshold the verifier
        # configured, for the process or for the single run
        Cfg.slack, Cfg.mode = 60, 'default'
        if j % 3 == 2:
            Cfg.slack = (5, 10, 600, 100000)[(j // 3) % 4]
            Cfg.mode = ('global', 'per-run')[(j // 12) % 2]
        ctx.tab('slack_configuration', f'{Cfg.mode}:{Cfg.slack}')
        gf = dict(env.REGISTERS_OFF if off else {})
        if Cfg.mode == 'global':
            gf['ts_threshold'] = Cfg.slack
        try:
            with env.global_flags(gf):
                scenario(ctx, ctx.rng(j), j)
        finally:
            Cfg.slack, Cfg.mode = 60, 'default'
            if ext:
                tapescript.reset_signature_extensions()
    judge_cert_roundtrip(ctx, ctx.rng('certs'))


def finalize(agg, tier):
    out = []
    e = agg['tables'].get('expected', {})
    if not e.get('True') or not e.get('False'):
        out.append(f'expected verdicts not diverse: {e}')
    return out


def replay(case, ctx):
    if case.get('name') in ('cert', 'field-change'):
        judge_cert_roundtrip(ctx, ctx.rng('replay'))
        return
    Cfg.slack, Cfg.mode = case.get('slack', 60), case.get('mode', 'default')
    gf = {'ts_threshold': Cfg.slack} if Cfg.mode == 'global' else {}
    if str(case.get('name', '')).startswith('script-witness:'):
        with env.global_flags(gf):
            ctx.evaluated()
            env.Clock.now = case['now']
            got = auth([case['witness'], case['lock']],
                       {**case['fields'], 'timestamp': case['t']})
            env.Clock.now = env.NOW0
            if (got is True) != case['want']:
                ctx.violation('delegation-' + ('accepts' if got is True else
                                               'rejects')
                              + ':chain:' + case['name'], 'replay', case,
                              case['want'], repr(got)[:80])
        Cfg.slack, Cfg.mode = 60, 'default'
        return
    with env.global_flags(gf):
        judge(ctx, case['name'], case['lock'], case['witness'], case['K'],
              case['certs'], case['fields'], case['allowed'], case['t'],
              case['now'], case['chain_lock'], True)
    Cfg.slack, Cfg.mode = 60, 'default'
