"""C09 — embedder configuration applies uniformily at every nesting level.

A probe instruction is placed in every nesting word over {IF, THEN, ELSE, TRY,
EXCEPT, LOOP, CALL, EVAL, MERKLEVAL, TAPROOT-script-path} and run through
run_script with the setting on / off / default. Observed: cache keys written,
plugin and contract invocation logs (recorders supplied through the public
plugins= / contracts= arguments), probe results, and — from a dispatch hook —
tape.flags / callstack_limit / contracts / plugins as seen by *every*
dispatched instruction.
"""
from __future__ import annotations
import hashlib
import itertools

import nacl.bindings as nb

from .. import env
from ..ref import isa, sigmsg

ID = 'C09'
RULE = ('contexts = all words over {IF, THEN, ELSE, TRY, EXCEPT, LOOP, CALL, '
        'EVAL, MERKLEVAL, TAPROOT} of length <= 2 (quick) / <= 3 (thorough), '
        'generated as bytecode with hoisted DEFs; probes: one per flag 0..10 '
        '(INVOKE, DERIVE_SCALAR, DERIVE_POINT, adapter ops, SIGN, SIGN_STACK, '
        'CHECK_TEMPLATE), ts/epoch thresholds on both sides, disallow_OP_EVAL, '
        'eval_return, signature-extension plugin count for every '
        'signature-related instruction, check_template plugin, INVOKE and '
        'CHECK_TRANSFER contracts; each with the setting on / off / default. '
        'distinct = by (context word, probe, configuration); non-trivial = '
        'nesting depth >= 1'
        ' [plus integer flag values (0 / 1), a process-wide REGISTERED extension in force / switched off for the run / replaced for the run, a bound-method extension and per-object call counts of the supplied contracts, the same probes as the 2nd / 3rd script of run_auth_scripts]')
ASSUMPTIONS = [
    'context wrappers are stack-neutral; probes push their own inputs and '
    'clean up',
    'SET_FLAG / UNSET_FLAG are judged on the integer flag they name '
    '(language_spec: "sets the tape flag number")',
]
NSH = 16
O = isa.op
CTX = ('IF', 'THEN', 'ELSE', 'TRY', 'EXCEPT', 'LOOP', 'CALL', 'EVAL',
       'MERKLEVAL', 'TAPROOT')

SEED = bytes(range(1, 33))
PK = sigmsg.pubkey(SEED)
SCALAR = nb.crypto_core_ed25519_scalar_reduce(bytes(range(7, 71)))
TPOINT = nb.crypto_scalarmult_ed25519_base_noclamp(SCALAR)
LIMIT = 61          # never the Tape default: a context that falls back to the
#                     default is seen by the dispatch hook
CID = b'\xc9' * 4
TID = b'\x7a' * 4
FIELDS = {'sigfield1': b'hello', 'sigfield2': b'world!'}


def shards(tier, seed):
    return [{'shard': i, 'of': NSH} for i in range(NSH)]


# ------------------------------------------------------------- contexts

def taproot_root(pk: bytes, script: bytes) -> bytes:
    import hashlib as h
    t = bytearray(h.sha256(pk + h.sha256(script).digest()).digest())
    t[31] &= 0x7f
    X = nb.crypto_scalarmult_ed25519_base_noclamp(bytes(t))
    return nb.crypto_core_ed25519_add(pk, X)


def place(word, probe: bytes) -> bytes:
    """probe inside the nesting word (outermost first)"""
    import hashlib as h
    body = probe
    prefix = b''
    handle = 20
    for c in reversed(word):
        if c == 'IF':
            body = O('TRUE') + isa.IF(body)
        elif c == 'THEN':
            body = O('TRUE') + isa.IF_ELSE(body, O('FALSE'))
        elif c == 'ELSE':
            body = O('FALSE') + isa.IF_ELSE(O('FALSE'), body)
        elif c == 'TRY':
            body = isa.TRY(body, b'')
        elif c == 'EXCEPT':
            body = isa.TRY(O('FALSE') + O('VERIFY'), body)
        elif c == 'LOOP':
            body = O('TRUE') + isa.LOOP(O('POP0') + body + O('FALSE')) \
                + O('POP0')
        elif c == 'CALL':
            prefix = isa.DEF(handle, body) + prefix
            body = isa.CALL(handle)
            handle += 1
        elif c == 'EVAL':
            body = isa.push(body) + O('EVAL')
        elif c == 'MERKLEVAL':
            sib = b'\x5b' * 32
            c1 = h.sha256(h.sha256(body).digest()).digest()
            c2 = h.sha256(sib).digest()
            root = bytes(a ^ b for a, b in zip(c1, c2))
            body = isa.push(sib) + isa.push(body) + O('MERKLEVAL') + root
        elif c == 'TAPROOT':
            root = taproot_root(PK, body)
            body = isa.push(body) + isa.push(PK) + isa.push(root) \
                + O('TAPROOT') + b'\x00'
    return prefix + body


def words(maxlen):
    yield ()
    for n in range(1, maxlen + 1):
        yield from itertools.product(CTX, repeat=n)


# ------------------------------------------------------------- recorders

class Rec:
    global_ext = 0
    sig_ext = 0
    ct_plugin = 0
    invoke = 0
    transfer = 0

    @classmethod
    def reset(cls):
        cls.sig_ext = cls.ct_plugin = cls.invoke = cls.transfer = 0
        cls.global_ext = 0
        cls.ext_top = None


def sig_ext_plugin(tape, stack, cache):
    Rec.sig_ext += 1
    # what the extension finds on top of the stack: it runs BEFORE the
    # instruction takes its operands
    Rec.ext_top = stack.deque[-1] if len(stack.deque) else None


class ExtObject:
    """an extension that is a BOUND METHOD of an embedder object"""

    def __init__(self) -> None:
        self.calls = 0

    def fire(self, tape, stack, cache):
        self.calls += 1
        Rec.sig_ext += 1


EXT_OBJECT = ExtObject()


class Supplied:
    """the contract objects handed to the current run"""
    inv = None
    tr = None


def global_ext_plugin(tape, stack, cache):
    """the extension registered for the whole PROCESS
    (add_signature_extension): in force for a run unless the run's own
    plugins argument supplies the scope"""
    Rec.global_ext += 1


class registered:
    """add_signature_extension(global_ext_plugin) for the block, when the
    configuration asks for it"""

    def __init__(self, kw) -> None:
        self.on = bool(kw.get('global_ext'))

    def __enter__(self):
        if self.on:
            import tapescript
            tapescript.add_signature_extension(global_ext_plugin)

    def __exit__(self, *a):
        if self.on:
            import tapescript
            tapescript.reset_signature_extensions()
        return False


def ct_plugin(tape, stack, cache):
    Rec.ct_plugin += 1
    return True


class Invokable:
    """counts per OBJECT as well: the contract a run reaches has to be the
    object the embedder supplied, not a copy of it"""

    def __init__(self) -> None:
        self.calls = 0

    def abi(self, args):
        self.calls += 1
        Rec.invoke += 1
        return [b'iv']


class Transfer:
    def __init__(self) -> None:
        self.calls = 0

    def verify_txn_proof(self, proof):
        self.calls += 1
        Rec.transfer += 1
        return True

    def verify_transfer(self, proof, source, destination):
        return True

    def verify_txn_constraint(self, proof, constraint):
        return True

    def calc_txn_aggregates(self, proofs, scope=None):
        return {scope: 10}


# ------------------------------------------------------------- probes

def out(key: bytes = b'o') -> bytes:
    """store the top item as the probe's observable"""
    return O('WRITE_CACHE') + bytes([len(key)]) + key + b'\x01'


def sig_for(flag=0):
    s = sigmsg.sign(SEED, sigmsg.message(FIELDS, flag))
    return s + (bytes([flag]) if flag else b'')


def probes():
    """name -> (bytecode, cache keys observed, [configs])
    config = (label, kwargs for run_script, extra expectation dict)"""
    P = {}
    # "flag values must have type int or bool" (docs.md): off is False or 0,
    # on is True or 1 (the two integer forms come after the slices taken
    # below)
    flagcfg = lambda f: [(f'flag{f}=on', {'additional_flags': {f: True}}),
                         (f'flag{f}=off', {'additional_flags': {f: False}}),
                         ('default', {}),
                         (f'flag{f}=off(0)', {'additional_flags': {f: 0}}),
                         (f'flag{f}=on(1)', {'additional_flags': {f: 1}})]
    P['invoke'] = (isa.push(b'a') + isa.push(b'\x01') + isa.push(CID)
                   + O('INVOKE') + O('POP0'), [b'IR'], flagcfg(0))
    P['dscalar'] = (isa.push(SEED) + O('DERIVE_SCALAR') + O('POP0'), [b'x'],
                    flagcfg(1))
    P['dpoint'] = (isa.push(SCALAR) + O('DERIVE_POINT') + O('POP0'), [b'X'],
                   flagcfg(2))
    masu = isa.push(SEED) + isa.push(b'm') + isa.push(TPOINT) \
        + O('MAKE_ADAPTER_SIG_PUBLIC') + O('POP1') + b'\x02'
    P['masu'] = (masu, [b'r', b'R', b'T', b'sa'],
                 flagcfg(3) + flagcfg(4)[:2] + flagcfg(6)[:2] + flagcfg(8)[:2])
    masv = isa.push(b'm') + isa.push(SCALAR) + isa.push(SEED) \
        + O('MAKE_ADAPTER_SIG_PRIVATE') + O('POP1') + b'\x03'
    P['masv'] = (masv, [b't', b'T', b'R', b'sa'], flagcfg(5))
    das = isa.push(SCALAR) + isa.push(TPOINT) + isa.push(SCALAR) \
        + O('DECRYPT_ADAPTER_SIG') + O('POP1') + b'\x02'
    P['das'] = (das, [b'RT', b's'], flagcfg(7) + flagcfg(9)[:2])
    plug = {'plugins': {'signature_extensions': [sig_ext_plugin]}}
    P['sign'] = (isa.push(SEED) + O('SIGN') + b'\x00' + O('POP0'), [b's'],
                 [(l, {**k, **plug}) for l, k in flagcfg(9)])
    P['sign_stack'] = (isa.push(b'msg') + isa.push(SEED) + O('SIGN_STACK')
                       + O('POP0'), [b's'], flagcfg(9))
    ctp = {'plugins': {'signature_extensions': [sig_ext_plugin],
                       'check_template': [ct_plugin]}}
    P['check_template'] = (isa.push(b'tmpl') + O('CHECK_TEMPLATE') + b'\x01'
                           + out(), [b'o'],
                           [(l, {**k, **ctp}) for l, k in flagcfg(10)]
                           + [('no-plugins', {})])
    now = env.NOW0
    P['check_timestamp'] = (
        isa.push((now - 5).to_bytes(4, 'big')) + O('CHECK_TIMESTAMP') + out(),
        [b'o'],
        [('thr=100/t=now+50', {'additional_flags': {'ts_threshold': 100},
                               'cache_vals': {'timestamp': now + 50}}),
         ('thr=10/t=now+50', {'additional_flags': {'ts_threshold': 10},
                              'cache_vals': {'timestamp': now + 50}}),
         ('default/t=now+50', {'cache_vals': {'timestamp': now + 50}}),
         ('default/t=now+70', {'cache_vals': {'timestamp': now + 70}}),
         ('thr=0/t=now+70', {'additional_flags': {'ts_threshold': 0},
                             'cache_vals': {'timestamp': now + 70}})])
    P['check_epoch'] = (
        isa.push((now + 50).to_bytes(4, 'big')) + O('CHECK_EPOCH') + out(),
        [b'o'],
        [('thr=100', {'additional_flags': {'epoch_threshold': 100}}),
         ('thr=10', {'additional_flags': {'epoch_threshold': 10}}),
         ('default', {})])
    ev = isa.TRY(isa.push(O('TRUE') + O('POP0')) + O('EVAL')
                 + isa.push(b'ok'), isa.push(b'err')) + out()
    P['eval_allowed'] = (ev, [b'o'],
                         [('disallowed', {'additional_flags':
                                          {'disallow_OP_EVAL': True}}),
                          ('default', {})])
    # the instructions that evaluate a script through OP_EVAL are disallowed
    # with it ("OP_TAPROOT ... calls OP_EVAL", "OP_MERKLEVAL ... OP_EVAL")
    inner = O('TRUE') + O('POP0')
    tp = isa.TRY(place(('TAPROOT',), inner) + isa.push(b'ok'),
                 isa.push(b'err')) + out()
    P['eval_allowed_taproot'] = (tp, [b'o'],
                                 [('disallowed', {'additional_flags':
                                                  {'disallow_OP_EVAL': True}}),
                                  ('default', {})])
    mk = isa.TRY(place(('MERKLEVAL',), inner) + isa.push(b'ok'),
                 isa.push(b'err')) + out()
    P['eval_allowed_merkleval'] = (mk, [b'o'],
                                   [('disallowed', {'additional_flags':
                                                    {'disallow_OP_EVAL': True}}),
                                    ('default', {})])
    er = isa.push(O('RETURN')) + O('EVAL') + isa.push(b'after') + out()
    P['eval_return'] = (er, [b'o'],
                        [('eval_return', {'additional_flags':
                                          {'eval_return': True}}),
                         ('eval_return=False', {'additional_flags':
                                                {'eval_return': False}}),
                         ('default', {})])
    # signature-related instructions: plugin must run exactly once
    sig = sig_for(0)
    P['get_message'] = (O('GET_MESSAGE') + b'\x00' + O('POP0'), [],
                        [('plugin', plug), ('no-plugin', {})])
    P['check_sig'] = (isa.push(sig) + isa.push(PK) + O('CHECK_SIG') + b'\x00'
                      + out(), [b'o'], [('plugin', plug), ('no-plugin', {})])
    sig3 = sig_for(3)
    P['get_message_f3'] = (O('GET_MESSAGE') + b'\x03' + O('POP0'), [],
                           [('plugin', plug)])
    P['sign_f1'] = (isa.push(SEED) + O('SIGN') + b'\x01' + O('POP0'), [b's'],
                    [('plugin', plug)])
    P['check_sig_f3'] = (isa.push(sig3) + isa.push(PK) + O('CHECK_SIG')
                         + b'\x0f' + out(), [b'o'], [('plugin', plug)])
    P['check_multisig_f3'] = (isa.push(sig3) + isa.push(PK)
                              + O('CHECK_MULTISIG') + b'\x03\x01\x01'
                              + out(), [b'o'], [('plugin', plug)])
    # an instruction that FAILS (flag byte not permitted) has still been
    # preceded by exactly one run of the extension
    P['check_sig_fails'] = (isa.TRY(isa.push(sig + b'\x01') + isa.push(PK)
                                    + O('CHECK_SIG') + b'\x00', b''), [],
                            [('plugin', plug)])
    P['check_sig_verify'] = (isa.push(sig) + isa.push(PK)
                             + O('CHECK_SIG_VERIFY') + b'\x00', [],
                             [('plugin', plug)])
    P['check_multisig'] = (isa.push(sig) + isa.push(PK) + O('CHECK_MULTISIG')
                           + b'\x00\x01\x01' + out(), [b'o'],
                           [('plugin', plug)])
    # quorums that need several (signature, key) attempts: still ONE run
    s2, s3 = bytes(range(40, 72)), bytes(range(90, 122))
    pk2, pk3 = sigmsg.pubkey(s2), sigmsg.pubkey(s3)
    sg2 = sigmsg.sign(s2, sigmsg.message(FIELDS, 0))
    sg3 = sigmsg.sign(s3, sigmsg.message(FIELDS, 0))
    P['check_multisig_2of3'] = (
        isa.push(sig) + isa.push(sg3) + isa.push(PK) + isa.push(pk2)
        + isa.push(pk3) + O('CHECK_MULTISIG') + b'\x00\x02\x03' + out(),
        [b'o'], [('plugin', plug), ('no-plugin', {})])
    P['check_multisig_2of2_verify'] = (
        isa.push(sg2) + isa.push(sig) + isa.push(PK) + isa.push(pk2)
        + O('CHECK_MULTISIG_VERIFY') + b'\x00\x02\x02', [],
        [('plugin', plug)])
    P['check_multisig_0of1'] = (
        isa.push(PK) + O('CHECK_MULTISIG') + b'\x00\x00\x01' + out(),
        [b'o'], [('plugin', plug)])
    P['check_multisig_verify'] = (isa.push(sig) + isa.push(PK)
                                  + O('CHECK_MULTISIG_VERIFY')
                                  + b'\x00\x01\x01', [], [('plugin', plug)])
    P['taproot_keypath'] = (isa.push(sig) + isa.push(PK) + O('TAPROOT')
                            + b'\x00' + out(), [b'o'], [('plugin', plug)])
    # ... and the same instructions with an extension registered for the
    # whole process: left in force, switched off for the run, or replaced for
    # the run by the run's own plugins argument
    bound = {'plugins': {'signature_extensions': [EXT_OBJECT.fire]}}
    gl = [('ext-is-bound-method', bound),
          ('global-ext', {'global_ext': True}),
          ('global-ext-off-for-run', {'global_ext': True, 'plugins':
                                      {'signature_extensions': []}}),
          ('global-ext-replaced-for-run', {'global_ext': True, **plug})]
    for nm in ('get_message', 'check_sig', 'sign_f1', 'check_sig_f3',
               'check_multisig_f3', 'check_sig_verify', 'check_multisig',
               'check_multisig_2of3', 'check_multisig_2of2_verify',
               'check_multisig_verify', 'taproot_keypath'):
        P[nm] = (P[nm][0], P[nm][1], list(P[nm][2]) + gl)
    tr = isa.push(b'proof') + isa.push(b'src') + isa.push(b'\x01') \
        + isa.push(b'dest') + isa.push(b'') + isa.push(b'\x05') \
        + isa.push(TID) + O('CHECK_TRANSFER') + out()
    P['check_transfer'] = (tr, [b'o'], [('contract', {})])
    # limits: a LOOP of exactly K iterations under callstack_limit L completes
    # iff K <= L, wherever it stands (the iteration bound is per LOOP)
    for K in (6, 130):
        body = O('FALSE') + O('TRUE') * K + isa.LOOP(O('POP0')) + O('POP0')
        P[f'loop{K}'] = (isa.TRY(body + isa.push(b'ok'), isa.push(b'err'))
                         + out(), [b'o'],
                         [(f'limit={L}', {'callstack_limit': L})
                          for L in (K - 1, K, K + 70)])
    return P


EXPECT_WRITTEN = {
    # probe -> {config label -> set of cache keys that must be written}
}


def spec_effect(pname, label, kw):
    """documented effect: dict key -> must be present (True) / absent (False);
    plus expected plugin / contract counts"""
    fl = kw.get('additional_flags', {})
    on = lambda f: bool(fl.get(f, True))
    e = {'keys': {}, 'sig_ext': None, 'ct_plugin': None, 'invoke': None,
         'transfer': None, 'o': None, 'global_ext': None}
    has_plugin = bool(kw.get('plugins', {}).get('signature_extensions'))
    if kw.get('global_ext'):
        # once per signature-related instruction when the run does not
        # supply the scope itself, never otherwise
        e['global_ext'] = 0 if 'signature_extensions' in \
            kw.get('plugins', {}) else 1
    if pname == 'invoke':
        e['keys'][b'IR'] = on(0)
        e['invoke'] = 1
    elif pname == 'dscalar':
        e['keys'][b'x'] = on(1)
    elif pname == 'dpoint':
        e['keys'][b'X'] = on(2)
    elif pname == 'masu':
        e['keys'] = {b'r': on(3), b'R': on(4), b'T': on(6), b'sa': on(8)}
    elif pname == 'masv':
        e['keys'] = {b'R': on(4), b't': on(5), b'T': on(6), b'sa': on(8)}
    elif pname == 'das':
        e['keys'] = {b'RT': on(7), b's': on(9)}
    elif pname == 'sign':
        e['keys'] = {b's': on(9)}
        e['sig_ext'] = 1
    elif pname == 'sign_stack':
        e['keys'] = {b's': on(9)}
    elif pname == 'check_template':
        if label == 'no-plugins':
            e['o'] = b'\x00'            # byte equality tmpl != hello
            e['sig_ext'] = 0
        else:
            e['o'] = b'\xff'
            e['sig_ext'] = 1 if on(10) else 0
            e['ct_plugin'] = 1
    elif pname == 'check_timestamp':
        thr = fl.get('ts_threshold', 60)
        t = kw['cache_vals']['timestamp']
        ok = t >= env.NOW0 - 5 and (thr <= 0 or t - env.NOW0 < thr)
        e['o'] = b'\xff' if ok else b'\x00'
    elif pname == 'check_epoch':
        thr = fl.get('epoch_threshold', 60)
        e['o'] = b'\xff' if 50 < thr else b'\x00'
    elif pname.startswith('loop'):
        e['o'] = b'ok' if int(pname[4:]) <= kw['callstack_limit'] else b'err'
    elif pname.startswith('eval_allowed'):
        e['o'] = b'err' if 'disallow_OP_EVAL' in fl else b'ok'
    elif pname == 'eval_return':
        e['o'] = None if fl.get('eval_return') else b'after'
        e['keys'][b'o'] = not fl.get('eval_return')
    elif pname == 'sign_f1':
        e['keys'] = {b's': True}
        e['sig_ext'] = 1 if has_plugin else 0
    elif pname in ('get_message', 'check_sig', 'check_sig_verify',
                   'check_sig_fails',
                   'check_multisig', 'check_multisig_verify',
                   'taproot_keypath', 'get_message_f3', 'check_sig_f3',
                   'check_multisig_f3', 'check_multisig_2of3',
                   'check_multisig_2of2_verify', 'check_multisig_0of1'):
        e['sig_ext'] = 1 if has_plugin else 0
        if pname in ('check_sig', 'check_multisig', 'taproot_keypath',
                     'check_sig_f3', 'check_multisig_f3',
                     'check_multisig_2of3', 'check_multisig_0of1'):
            e['o'] = b'\xff' if pname != 'taproot_keypath' else None
    elif pname == 'check_transfer':
        e['o'] = b'\xff'
        e['transfer'] = 1
    return e


# ------------------------------------------------------------- dispatch hook

class Hook:
    baseline = None
    flag_op_seen = False
    problems: list = []
    dispatches = 0
    limit = None
    contracts_id = None
    plugins_keys = None
    depth_seen = 0


def install_hook():
    functions = env.mods()[0]
    saved = (dict(functions.opcodes), dict(functions.nopcodes))

    def wrap(name, fn):
        def traced(tape, stack, cache):
            Hook.dispatches += 1
            if Hook.baseline is None:
                Hook.baseline = dict(tape.flags)
                Hook.limit = tape.callstack_limit
                Hook.contracts_keys = set(tape.contracts)
                Hook.plugins_n = {k: len(v) for k, v in tape.plugins.items()}
            else:
                if not Hook.flag_op_seen and dict(tape.flags) != Hook.baseline:
                    diff = {k: (Hook.baseline.get(k, '<absent>'),
                                tape.flags.get(k, '<absent>'))
                            for k in set(Hook.baseline) | set(tape.flags)
                            if Hook.baseline.get(k, '<absent>')
                            != tape.flags.get(k, '<absent>')}
                    Hook.problems.append(('flags-differ-at-instruction',
                                          f'{name}: {diff}'))
                if tape.callstack_limit != Hook.limit:
                    Hook.problems.append(('callstack-limit-differs',
                                          f'{name}: {tape.callstack_limit}'))
                if set(tape.contracts) != Hook.contracts_keys:
                    Hook.problems.append(('contracts-differ-at-instruction',
                                          f'{name}: {sorted(tape.contracts)}'))
                pn = {k: len(v) for k, v in tape.plugins.items()}
                if pn != Hook.plugins_n:
                    Hook.problems.append(('plugins-differ-at-instruction',
                                          f'{name}: {pn} vs {Hook.plugins_n}'))
            if name in ('OP_SET_FLAG', 'OP_UNSET_FLAG'):
                Hook.flag_op_seen = True
            fn(tape, stack, cache)
        traced.__wrapped__ = fn
        return traced
    for table in (functions.opcodes, functions.nopcodes):
        for c, (name, fn) in list(table.items()):
            table[c] = (name, wrap(name, fn))
    return saved


def reset_hook():
    Hook.baseline = None
    Hook.flag_op_seen = False
    Hook.problems = []
    Hook.limit = None


# ------------------------------------------------------------- judging

def execute(script, kw):
    functions = env.mods()[0]
    env.Clock.now = env.NOW0
    Rec.reset()
    reset_hook()
    cache_vals = {**FIELDS, **kw.get('cache_vals', {})}
    Supplied.inv, Supplied.tr = Invokable(), Transfer()
    EXT_OBJECT.calls = 0
    try:
        _, stack, cache = functions.run_script(
            script, cache_vals,
            contracts={CID: Supplied.inv, TID: Supplied.tr},
            additional_flags=dict(kw.get('additional_flags', {})),
            plugins={k: list(v) for k, v in kw.get('plugins', {}).items()},
            stack_max_items=977, stack_max_item_size=1009,
            callstack_limit=kw.get('callstack_limit', LIMIT))
        return {'raised': None, 'stack': list(stack.deque), 'cache': cache}
    except BaseException as e:
        return {'raised': e, 'stack': None, 'cache': {}}


def observation(res, keys):
    if res['raised'] is not None:
        return ('raised', type(res['raised']).__name__)
    c = res['cache']
    return (tuple((k, k in c) for k in keys),
            tuple(c[b'o'][0] if isinstance(c.get(b'o'), list) and c[b'o']
                  else None for _ in (0,)),
            Rec.sig_ext, Rec.ct_plugin, Rec.invoke, Rec.transfer,
            Rec.global_ext, tuple(res['stack']))


def classify_flags_problem(word, desc):
    return 'flags-differ-at-instruction'


EVAL_BASED = {'EVAL', 'MERKLEVAL', 'TAPROOT'}


def applicable(word, pname, label, kw) -> bool:
    fl = kw.get('additional_flags', {})
    # a disallowed OP_EVAL makes the EVAL-based *contexts themselves* raise
    if 'disallow_OP_EVAL' in fl and EVAL_BASED & set(word):
        return False
    # the documents do not say whether LOOP is transparent to RETURN (see C06
    # finding stale-return-after-loop): a propagating RETURN is not probed
    # inside LOOP contexts
    if pname == 'eval_return' and fl.get('eval_return') and 'LOOP' in word:
        return False
    return True


def top_observation(probe, kw, keys):
    with registered(kw):
        return observation(execute(place((), probe), kw), keys)


def judge(ctx, word, pname, probe, keys, label, kw, top_obs):
    if not applicable(word, pname, label, kw):
        ctx.count('skipped.context_not_applicable')
        return None
    script = place(word, probe)
    case = {'word': list(word), 'probe': pname, 'config': label,
            'script': script}
    with registered(kw):
        return _judge(ctx, word, pname, keys, label, kw, top_obs, script, case)


def _judge(ctx, word, pname, keys, label, kw, top_obs, script, case):
    res = execute(script, kw)
    obs = observation(res, keys)
    ctx.evaluated()
    ctx.tab('configuration', label.split('=')[0])
    ctx.count('monitor.dispatches', Hook.dispatches)
    Hook.dispatches = 0
    ctx.tab('context_depth', len(word))
    exp = spec_effect(pname, label, kw)
    bad = False
    if res['raised'] is not None:
        ctx.violation('probe-raised-in-context', f'probe {pname} raised in '
                      f'context {word or "top"} under {label}', case,
                      'no error', repr(res['raised'])[:120])
        return obs
    c = res['cache']
    for k, want in exp['keys'].items():
        if (k in c) != want:
            key = 'flag-off-key-written' if not want else 'flag-on-key-missing'
            ctx.violation(key, f'probe {pname} under {label} in context '
                          f'{word or "top"}: cache key {k!r} '
                          f'{"written" if k in c else "not written"}', case,
                          want, k in c)
            bad = True
            break
    if not bad and exp['o'] is not None:
        got = c.get(b'o')
        got = got[0] if isinstance(got, list) and got else got
        if got != exp['o']:
            ctx.violation('probe-result-wrong', f'probe {pname} under {label} '
                          f'in context {word or "top"}', case, exp['o'],
                          got)
            bad = True
    for name, cnt in (('sig_ext', Rec.sig_ext), ('ct_plugin', Rec.ct_plugin),
                      ('invoke', Rec.invoke), ('transfer', Rec.transfer),
                      ('global_ext', Rec.global_ext)):
        if not bad and exp[name] is not None and cnt != exp[name]:
            key = {'sig_ext': 'sig-extension-plugin-count',
                   'global_ext': 'registered-sig-extension-count',
                   'ct_plugin': 'check-template-plugin-count',
                   'invoke': 'contract-not-reached',
                   'transfer': 'contract-not-reached'}[name]
            ctx.violation(key, f'{name} recorder saw {cnt} calls, expected '
                          f'{exp[name]} (probe {pname}, {label}, context '
                          f'{word or "top"})', case, exp[name], cnt)
            bad = True
    if not bad and (Supplied.inv.calls != Rec.invoke
                    or Supplied.tr.calls != Rec.transfer
                    or (EXT_OBJECT.fire in kw.get('plugins', {}).get(
                        'signature_extensions', ())
                        and EXT_OBJECT.calls != Rec.sig_ext)):
        ctx.violation('embedder-object-not-the-one-reached', 'a contract / '
                      'bound-method extension was called, but not on the '
                      f'object the embedder supplied (probe {pname}, {label}, '
                      f'context {word or "top"}): calls seen by the class '
                      f'{(Rec.invoke, Rec.transfer, Rec.sig_ext)}, by the '
                      'supplied objects '
                      f'{(Supplied.inv.calls, Supplied.tr.calls, EXT_OBJECT.calls)}',
                      case)
        bad = True
    if not bad and pname in ('check_sig', 'check_sig_verify', 'check_sig_f3',
                             'check_sig_fails') and Rec.sig_ext \
            and sig_ext_plugin in kw.get('plugins', {}).get(
                'signature_extensions', ()) and Rec.ext_top != PK:
        ctx.violation('sig-extension-ran-after-operands-were-taken', 'the '
                      'extension did not find the key on top of the stack: '
                      'it ran after the instruction had taken its operands '
                      f'(probe {pname}, {label}, context {word or "top"})',
                      case, PK.hex(), repr(Rec.ext_top)[:80])
        bad = True
    if not bad and Hook.problems:
        k, d = Hook.problems[0]
        ctx.violation(k, f'configuration seen by a dispatched instruction '
                      f'differs: {d} (probe {pname}, {label}, context '
                      f'{word or "top"})', case)
        bad = True
    if not bad and top_obs is not None and obs != top_obs:
        ctx.violation('not-uniform-with-top-level', f'probe {pname} under '
                      f'{label}: observation in context {word} differs from '
                      'top level', case, repr(top_obs)[:200], repr(obs)[:200])
        bad = True
    # the same probe as the SECOND / THIRD script of an authorization: what
    # the embedder supplied to run_auth_scripts (contracts, plugins, limits)
    # governs every script of the list (it takes no flags argument)
    if not bad and not kw.get('additional_flags') and \
            'callstack_limit' not in kw:
        functions = env.mods()[0]
        first = (Rec.sig_ext, Rec.ct_plugin, Rec.invoke, Rec.transfer,
                 Rec.global_ext)
        neutral = O('TRUE') + O('POP0')
        for pos in (1, 2):
            Rec.reset()
            reset_hook()
            env.Clock.now = env.NOW0
            try:
                functions.run_auth_scripts(
                    [neutral] * pos + [script],
                    {**FIELDS, **kw.get('cache_vals', {})},
                    {CID: Invokable(), TID: Transfer()},
                    {k: list(v) for k, v in kw.get('plugins', {}).items()},
                    977, 1009, LIMIT)
            except BaseException:
                pass
            ctx.evaluated()
            now = (Rec.sig_ext, Rec.ct_plugin, Rec.invoke, Rec.transfer,
                   Rec.global_ext)
            if now != first:
                ctx.violation('not-uniform-in-later-auth-script',
                              f'probe {pname} under {label} in context '
                              f'{word or "top"} placed in script #{pos} of '
                              'run_auth_scripts: plugin / contract calls '
                              '(sig_ext, ct_plugin, invoke, transfer) differ '
                              'from the run_script run', dict(case, auth_pos=pos),
                              first, now)
                bad = True
                break
            if Hook.problems:
                k, d = Hook.problems[0]
                ctx.violation(k, 'configuration seen by a dispatched '
                              f'instruction of script #{pos} of '
                              f'run_auth_scripts differs: {d} (probe {pname}, '
                              f'{label}, context {word or "top"})',
                              dict(case, auth_pos=pos))
                bad = True
                break
    if word and not bad:
        ctx.mark_nontrivial(hashlib.blake2b(
            repr((word, pname, label)).encode(), digest_size=8).digest())
    return obs


def judge_flag_ops(ctx, word):
    """(d) SET_FLAG n / UNSET_FLAG n change exactly the integer flag they
    name."""
    dscalar = isa.push(SEED) + O('DERIVE_SCALAR') + O('POP0')
    dpoint = isa.push(SCALAR) + O('DERIVE_POINT') + O('POP0')
    for opn, start, want_x in (('OP_SET_FLAG', False, True),
                               ('OP_UNSET_FLAG', True, False)):
        body = O(opn[3:]) + b'\x01\x01' + dscalar + dpoint
        script = place(word, body)
        kw = {'additional_flags': {1: start, 2: True}}
        res = execute(script, kw)
        ctx.evaluated()
        case = {'word': list(word), 'probe': opn, 'script': script,
                'config': f'flag1={start}'}
        if res['raised'] is not None:
            ctx.violation('flag-instructions-ignore-integer-flags',
                          f'{opn} x01 raised {res["raised"]!r}'[:160], case,
                          'flag 1 changed', 'error')
            continue
        c = res['cache']
        if (b'x' in c) != want_x:
            ctx.violation('flag-instructions-ignore-integer-flags',
                          f'{opn} x01 did not change integer flag 1', case,
                          want_x, b'x' in c)
        elif b'X' not in c:
            ctx.violation('flag-instruction-changed-other-flag',
                          f'{opn} x01 also changed flag 2', case)
        else:
            ctx.mark_nontrivial(hashlib.blake2b(
                repr((word, opn)).encode(), digest_size=8).digest())


    # the embedder's str-keyed settings are no integer flags: a flag
    # instruction that NAMES one leaves it in force (a disallowed EVAL stays
    # disallowed)
    if EVAL_BASED & set(word):
        return
    for opn in ('SET_FLAG', 'UNSET_FLAG'):
        for name in (b'disallow_OP_EVAL', b'disallow_op_eval'):
            # (the evaluated script leaves a cache entry behind: inside a
            # TRY the refusal of the EVAL is not visible as an error)
            body = O(opn) + bytes([len(name)]) + name \
                + isa.push(dscalar) + O('EVAL')
            script = place(word, body)
            res = execute(script, {'additional_flags':
                                   {1: True, 'disallow_OP_EVAL': True}})
            ctx.evaluated()
            ctx.count('flag_instruction_names_embedder_setting')
            if res['raised'] is None and b'x' in res['cache']:
                ctx.violation('flag-instruction-lifted-embedder-setting',
                              f'after {opn} {name!r} an EVAL ran although '
                              'the embedder disallowed it',
                              {'word': list(word), 'probe': 'OP_' + opn,
                               'script': script,
                               'config': 'disallow_OP_EVAL'},
                              'error at EVAL', 'no error')


def run_shard(spec, ctx):
    i, of = spec['shard'], spec['of']
    maxlen = 2 if ctx.tier == 'quick' else 3
    P = probes()
    saved = install_hook()
    functions = env.mods()[0]
    try:
        # top-level observations first (every shard needs them)
        top = {}
        for pname, (probe, keys, cfgs) in P.items():
            for label, kw in cfgs:
                top[(pname, label)] = judge(ctx, (), pname, probe, keys,
                                            label, kw, None) \
                    if i == 0 else top_observation(probe, kw, keys)
        for n, word in enumerate(words(maxlen)):
            if not word or n % of != i:
                continue
            for pname, (probe, keys, cfgs) in P.items():
                for label, kw in cfgs:
                    judge(ctx, word, pname, probe, keys, label, kw,
                          top[(pname, label)])
            if len(word) <= 2:
                judge_flag_ops(ctx, word)
            if n % 40 == 0:
                ctx.sample({'word': list(word), 'probe': 'dscalar',
                            'script': place(word, P['dscalar'][0])})
        if i == 0:
            judge_flag_ops(ctx, ())
        ctx.exhaustive(f'all nesting words of length <= {maxlen} x all '
                       'probes x their configurations')
        if ctx.tier == 'thorough':
            # a seeded sample of the 10^4 words of length 4
            rng = ctx.rng('depth4')
            for _ in range(2400 // of):
                word = tuple(rng.choice(CTX) for _ in range(4))
                for pname, (probe, keys, cfgs) in P.items():
                    label, kw = cfgs[rng.randrange(len(cfgs))]
                    judge(ctx, word, pname, probe, keys, label, kw,
                          top[(pname, label)])
    finally:
        functions.opcodes.clear()
        functions.opcodes.update(saved[0])
        functions.nopcodes.clear()
        functions.nopcodes.update(saved[1])


def finalize(agg, tier):
    out = []
    if not agg['counters'].get('monitor.dispatches'):
        out.append('dispatch hook saw nothing')
    d = agg['tables'].get('context_depth', {})
    if not d.get('2'):
        out.append('no depth-2 context was run')
    return out


def replay(case, ctx):
    P = probes()
    saved = install_hook()
    functions = env.mods()[0]
    try:
        word = tuple(case['word'])
        if case['probe'] in ('OP_SET_FLAG', 'OP_UNSET_FLAG'):
            judge_flag_ops(ctx, word)
            return
        probe, keys, cfgs = P[case['probe']]
        for label, kw in cfgs:
            if label == case['config']:
                with registered(kw):
                    top = observation(execute(place((), probe), kw), keys)
                judge(ctx, word, case['probe'], probe, keys, label, kw, top)
    finally:
        functions.opcodes.clear()
        functions.opcodes.update(saved[0])
        functions.nopcodes.clear()
        functions.nopcodes.update(saved[1])
