"""C01 — authorization verdict is exact; a witness cannot truncate the lock.

Real run_auth_scripts (verdict from an uninstrumented call) is compared with a
channel oracle composed by hand from the public pieces exactly as the docstring
describes the contract — one Stack, one cache, one fresh Tape per script with
definitions / call budget carried forward, interpreter control state cleared at
every script boundary — and the dispatch traces of both runs (instrumented
replay) are compared per script: a later script with fewer dispatched
instructions than the oracle is the skipped-instruction witness.
"""
from __future__ import annotations
import hashlib

from .. import env, instr
from ..gen import auth
from ..ref import isa, sigmsg

ID = 'C01'
RULE = ('lists of 1..4 scripts: raw byte strings (0..48 bytes, opcode-biased), '
        'structured adversarial witness x lock pairs (RETURN at nesting depth '
        '0..3 in IF/ELSE/TRY/EXCEPT/LOOP/CALL/EVAL, DEFs of lock handles, '
        'cache writes incl. b"returned", junk, call-burning) and builder locks '
        'with honest witnesses + adversarial prefixes; x stack/call limits x '
        'initial caches. distinct = by (scripts, limits, cache); non-trivial = '
        '>= 2 scripts each dispatching >= 1 instruction, or verdict True'
        ' [plus cut-off lists (every operand-taking instruction cut off by the end of its script, in every list position and clause, before a lock that accepts any stack), locks that evaluate a witness item between defining and calling their own function, pressure / call-chain fragments, Script objects / tuples as arguments, the deprecated single-script entry point under every limit]')
ASSUMPTIONS = [
    'intra-script semantics are taken from the real VM (they are C06\'s '
    'business); the oracle only fixes inter-script state flow and the verdict '
    'rule',
    'generated initial caches never contain the interpreter control key '
    '"returned"',
]
NSH = 16
NCASE = {'quick': 64_000, 'thorough': 2_000_000}
BATCH = 500


def shards(tier, seed):
    return [{'shard': i, 'of': NSH} for i in range(NSH)]


class T:
    """dispatch tracer state"""
    events: list = []
    script = -1
    depth = 0
    tops: list = []
    on = False
    own_defs: dict = {}
    problems: list = []
    # return scopes: [returned?, loop depth inside the scope]; a new scope per
    # script and per CALL / EVAL activation (IF / TRY bodies are transparent)
    scopes: list = []
    flag_op = False


def install_tracer():
    functions = env.mods()[0]
    saved = (dict(functions.opcodes), dict(functions.nopcodes),
             functions.run_tape)

    def note(name):
        """own-explicit-return monitor: once a script (or a called function /
        an evaluated script) has executed RETURN, no further instruction of
        that same scope is dispatched. RETURN inside a LOOP body is left out
        (the documents do not say whether LOOP is transparent to it), and so
        is any run that touched the flag instructions."""
        if not T.scopes:
            return
        sc = T.scopes[-1]
        if sc[0] and not T.flag_op and len(T.problems) < 5:
            T.problems.append(
                f'script #{T.script}: {name} dispatched after the same '
                'script / function had executed its own RETURN')
        if name == 'OP_RETURN' and sc[1] == 0:
            sc[0] = True
        elif name in ('OP_SET_FLAG', 'OP_UNSET_FLAG'):
            T.flag_op = True

    def scoped(fn, kind):
        def op(tape, stack, cache):
            if kind == 'loop':
                if T.scopes:
                    T.scopes[-1][1] += 1
                try:
                    return fn(tape, stack, cache)
                finally:
                    if T.scopes:
                        T.scopes[-1][1] -= 1
            T.scopes.append([False, 0])
            try:
                return fn(tape, stack, cache)
            finally:
                T.scopes.pop()
        op.__wrapped__ = fn
        return op

    def wrap(name, fn):
        if name in ('OP_CALL', 'OP_EVAL'):
            fn = scoped(fn, 'scope')
        elif name == 'OP_LOOP':
            fn = scoped(fn, 'loop')

        def traced(tape, stack, cache):
            T.events.append((T.script, T.depth, tape.pointer - 1, name))
            note(name)
            fn(tape, stack, cache)
        if name == 'OP_DEF':
            def traced(tape, stack, cache):        # noqa: F811
                T.events.append((T.script, T.depth, tape.pointer - 1, name))
                note(name)
                p, d = tape.pointer, tape.data
                if p + 3 <= len(d):
                    size = int.from_bytes(d[p + 1:p + 3], 'big')
                    if p + 3 + size <= len(d):
                        # the definition this tape itself just made
                        T.own_defs[(id(tape), d[p:p + 1])] = (
                            tape, d[p + 3:p + 3 + size])
                fn(tape, stack, cache)
        elif name == 'OP_CALL':
            def traced(tape, stack, cache):        # noqa: F811
                T.events.append((T.script, T.depth, tape.pointer - 1, name))
                note(name)
                h = tape.data[tape.pointer:tape.pointer + 1]
                own = T.own_defs.get((id(tape), h))
                callee = tape.definitions.get(h)
                if own is not None and own[0] is tape and callee is not None \
                        and callee.data != own[1]:
                    T.problems.append(
                        f'script #{T.script}: CALL {h.hex()} runs a body '
                        f'({callee.data.hex()[:40]}) other than the one the '
                        f'same tape defined ({own[1].hex()[:40]})')
                fn(tape, stack, cache)
        traced.__wrapped__ = fn
        return traced
    for table in (functions.opcodes, functions.nopcodes):
        for c, (name, fn) in list(table.items()):
            table[c] = (name, wrap(name, fn))
    orig = functions.run_tape
    # MERKLEVAL / TAPROOT call the module-level OP_EVAL directly
    saved_eval = functions.OP_EVAL
    functions.OP_EVAL = scoped(saved_eval, 'scope')
    saved = saved + (saved_eval,)

    def run_tape(tape, stack, cache, additional_flags={}):
        if T.depth == 0:
            T.script += 1
            T.tops.append(tape)
            T.scopes = [[False, 0]]
        T.depth += 1
        try:
            return orig(tape, stack, cache, additional_flags)
        finally:
            T.depth -= 1
    functions.run_tape = run_tape
    return saved


def remove_tracer(saved):
    functions = env.mods()[0]
    functions.opcodes.clear()
    functions.opcodes.update(saved[0])
    functions.nopcodes.clear()
    functions.nopcodes.update(saved[1])
    functions.run_tape = saved[2]
    functions.OP_EVAL = saved[3]


def reset_trace():
    T.events = []
    T.script = -1
    T.depth = 0
    T.tops = []
    T.own_defs = {}
    T.problems = []
    T.scopes = []
    T.flag_op = False


def real(case):
    functions, _, tools, _, _ = env.mods()
    env.Clock.now = env.NOW0
    env.Entropy.reset()         # RANDOM ... EVAL: the same bytes in every run
    scripts = list(case['scripts'])
    # the entry point takes bytes or Script objects, in any mix
    how = case.get('as_objects', 0)
    if how:
        scripts = [tools.Script('src', b) if (how >> k) & 1 else b
                   for k, b in enumerate(scripts)]
        if how & 16:
            scripts = tuple(scripts)
    try:
        r = functions.run_auth_scripts(
            scripts, dict(case['cache']), {}, {},
            case['max_items'], case['max_item_size'], case['limit'])
        return r, None
    except BaseException as e:
        return None, e


def reference_verdict(case):
    """the verdict according to the reference interpreter written from the
    documents (ref/vm.py, the C06 model): independent of the VM under test
    also for what happens INSIDE a script. -> True / False / None (the
    documents do not decide)"""
    from ..ref import vm
    counter = [0]

    def entropy(n):
        out = env.Entropy.peek_stream(b'tsverif-entropy', counter[0], n)
        counter[0] += 1
        return out
    cfg = vm.Config(case['max_items'], case['max_item_size'], case['limit'],
                    {}, {}, env.NOW0, entropy, {})
    import copy
    cache = {'timestamp': env.NOW0, **copy.deepcopy(dict(case['cache']))}
    try:
        return vm.run_auth(case['scripts'], cache, cfg)
    except vm.Unspecified:
        return None
    except RecursionError:
        return None


def oracle(case):
    """the contract of the docstring, composed from Tape / Stack / run_tape"""
    functions, _, _, classes, _ = env.mods()
    env.Clock.now = env.NOW0
    env.Entropy.reset()
    stack = functions.Stack(max_items=case['max_items'],
                            max_item_size=case['max_item_size'])
    cache = {'timestamp': int(env.Clock.now), **dict(case['cache'])}
    initial = {k: v for k, v in cache.items() if type(k) is str}
    defs, count = {}, 0
    for s in case['scripts']:
        tape = functions.Tape(s, callstack_limit=case['limit'],
                              callstack_count=count, definitions=defs)
        tape.contracts = {}
        tape.plugins = {k: list(v) for k, v in functions._plugins.items()}
        # interpreter-owned (str-keyed) state does not cross a script
        # boundary: only what the embedder supplied is there; scripts
        # communicate through the stack and byte-keyed entries only
        for k in [k for k in cache if type(k) is str]:
            if k in initial:
                cache[k] = initial[k]
            else:
                del cache[k]
        try:
            functions.run_tape(tape, stack, cache)
        except BaseException:
            return False
        if not tape.has_terminated():
            return False
        count, defs = tape.callstack_count, tape.definitions
    return list(stack.deque) == [b'\xff']


LIMITS = {
    'max_items': (1, 2, 3, 5, 1024, 1024, 1024),
    'max_item_size': (1, 32, 64, 1024, 1024, 1024),
    'limit': (0, 1, 2, 5, 128, 128, 128),
}


def gen_cache(rng):
    c = {}
    for i in range(1, 9):
        if rng.random() < 0.3:
            c[f'sigfield{i}'] = auth.rbytes(rng, rng.choice((0, 1, 32)))
    if rng.random() < 0.3:
        c['timestamp'] = rng.choice((0, env.NOW0, env.NOW0 + 1000))
    if rng.random() < 0.2:
        c['extra'] = b'v'
    if rng.random() < 0.2:
        c[b'k'] = [b'\x01']
    if rng.random() < 0.1:
        c[b'returned'] = [b'\x01']
    return c


def builder_case(rng):
    """real builder lock + honest witness, extended adversarially"""
    functions, _, tools, _, _ = env.mods()
    seed = auth.rbytes(rng, 32)
    pk = sigmsg.pubkey(seed)
    seed2 = auth.rbytes(rng, 32)
    pk2 = sigmsg.pubkey(seed2)
    fields = {'sigfield1': b'hello', 'sigfield2': auth.rbytes(rng, 8)}
    k = rng.choice(('single', 'single2', 'graft_key', 'graft_sur', 'ptlc',
                    'ptlc_refund', 'htlc', 'taproot_key', 'taproot_script',
                    'nn_taproot_key', 'nn_taproot_script', 'chain', 'multisig'))
    t = tools
    committed = t.Script.from_src('true')
    if k == 'single':
        lock, wit = t.make_single_sig_lock(pk), t.make_single_sig_witness(seed, fields)
    elif k == 'single2':
        lock, wit = t.make_single_sig_lock2(pk), t.make_single_sig_witness2(seed, fields)
    elif k == 'graft_key':
        lock, wit = t.make_graftroot_lock(pk), t.make_graftroot_witness_keyspend(seed, fields)
    elif k == 'graft_sur':
        lock, wit = t.make_graftroot_lock(pk), t.make_graftroot_witness_surrogate(seed, committed)
    elif k == 'ptlc':
        lock, wit = t.make_ptlc_lock(pk, pk2), t.make_ptlc_witness(seed, fields)
    elif k == 'ptlc_refund':
        lock = t.make_ptlc_lock(pk, pk2, timeout=0)
        wit = t.make_ptlc_refund_witness(seed2, fields)
    elif k == 'htlc':
        pre = auth.rbytes(rng, 16)
        lock = t.make_htlc_sha256_lock(pk, pk2, pre)
        wit = t.make_htlc_witness(seed, pre, fields)
    elif k == 'taproot_key':
        lock = t.make_taproot_lock(pk, committed)
        wit = t.make_taproot_witness_keyspend(seed, fields, committed)
    elif k == 'taproot_script':
        lock = t.make_taproot_lock(pk, committed)
        wit = t.make_taproot_witness_scriptspend(pk, committed)
    elif k == 'nn_taproot_key':
        lock = t.make_nonnative_taproot_lock(pk, committed)
        wit = t.make_taproot_witness_keyspend(seed, fields, committed)
    elif k == 'nn_taproot_script':
        lock = t.make_nonnative_taproot_lock(pk, committed)
        wit = t.make_taproot_witness_scriptspend(pk, committed)
    elif k == 'chain':
        lock = t.make_delegate_key_chain_lock(pk)
        c1 = t.make_delegate_key_cert(seed, pk2, env.NOW0 - 10, env.NOW0 + 10)
        wit = t.make_delegate_key_chain_witness(seed2, [c1], fields)
    else:
        lock = t.make_multisig_lock([pk, pk2], 2)
        wit = t.make_single_sig_witness(seed, fields) + \
            t.make_single_sig_witness(seed2, fields)
    lock, wit = bytes(lock), bytes(wit)
    r = rng.random()
    info = {'handles': [0], 'keys': [b'k', b's', b'd'], 'wants': []}
    if r < 0.3:
        scripts = [wit, lock]
    elif r < 0.6:
        scripts = [auth.witness(rng, info) + wit, lock]
    elif r < 0.8:
        scripts = [auth.witness(rng, info), wit, lock]
    elif r < 0.9:
        # corrupt the honest witness, keep an early return in front
        w = bytearray(wit)
        if w:
            w[rng.randrange(len(w))] ^= 1 << rng.randrange(8)
        scripts = [auth.wrap_return(rng, rng.randrange(0, 3)), bytes(w), lock]
    else:
        scripts = [auth.wrap_return(rng, rng.randrange(0, 3)) + wit, lock]
    return scripts, fields, k


def gen_case(rng):
    r = rng.random()
    cache = gen_cache(rng)
    tag = 'raw'
    budget = None
    if r < 0.02:
        # straight-line calls only: the witness spends k calls, the lock m
        # more; "the callstack_limit is enforced across the total execution
        # via a cumulative callstack_count" (run_auth_scripts docstring), so
        # the list authorizes exactly when k + m <= limit
        tag = 'budget'
        L_ = rng.choice((1, 2, 3, 5, 8))
        k_, m_ = rng.randrange(0, L_ + 2), rng.randrange(0, L_ + 2)
        scripts = [isa.DEF(9, b'') + isa.CALL(9) * k_,
                   isa.DEF(8, b'') + isa.CALL(8) * m_ + isa.op('TRUE')]
        if rng.random() < 0.3:
            scripts.insert(1, isa.op('TRUE') + isa.op('POP0'))
        budget = (k_, m_, L_)
        cache = {}
    elif r < 0.07:
        tag = 'cutoff'
        scripts, control = auth.cutoff_list(rng)
    elif r < 0.25:
        scripts = [auth.raw_script(rng) for _ in range(rng.randrange(1, 5))]
    elif r < 0.8:
        tag = 'pair'
        scripts = auth.pair(rng)
        if rng.random() < 0.25:
            scripts.insert(0, auth.witness(rng, {'handles': [0, 1]}))
        if rng.random() < 0.15:
            scripts.append(auth.lock(rng)[0])
        scripts = scripts[:4]
    else:
        scripts, fields, k = builder_case(rng)
        cache = {**cache, **fields}
        cache.pop('timestamp', None)
        tag = 'builder:' + k
    big = tag.startswith('builder') or tag == 'cutoff'
    case = {
        'scripts': scripts, 'cache': cache, 'tag': tag,
        'as_objects': rng.getrandbits(5) if rng.random() < 0.25 else 0,
        'max_items': 1024 if big and rng.random() < 0.8
        else rng.choice(LIMITS['max_items']),
        'max_item_size': 1024 if big and rng.random() < 0.8
        else rng.choice(LIMITS['max_item_size']),
        'limit': 128 if big and rng.random() < 0.7
        else rng.choice(LIMITS['limit']),
    }
    if tag == 'cutoff':
        case['control'] = control
    if budget is not None:
        case.update(max_items=1024, max_item_size=1024, limit=budget[2],
                    budget=list(budget))
    return case


def dg(case) -> bytes:
    h = hashlib.blake2b(digest_size=8)
    for s in case['scripts']:
        h.update(len(s).to_bytes(4, 'big') + s)
    h.update(repr((sorted(case['cache'].items(), key=repr), case['max_items'],
                   case['max_item_size'], case['limit'])).encode())
    return h.digest()


def per_script(events, n):
    out = [[] for _ in range(n)]
    for s, d, p, name in events:
        if 0 <= s < n:
            out[s].append((d, p, name))
    return out


def judge_traced(ctx, case, verdict, exc):
    """instrumented replay of the real call and of the oracle (tracer is
    installed by the caller)."""
    n = len(case['scripts'])
    if case.get('control') is not None:
        # the same list without the cut-off instruction: it authorizes, so
        # stepping over the cut instruction would show
        if real(dict(case, scripts=case['control'], as_objects=0))[0] is True:
            ctx.count('cutoff_control_true')
    reset_trace()
    mon = instr.Monitor()
    with instr.injected(mon):
        v2, e2 = real(case)
    ctx.count('monitor.stack_appends', mon.appends)
    ctx.max('monitor.max_stack_len', mon.max_stack_len)
    ev_real = per_script(T.events, n)
    tops_real = list(T.tops)
    def_problems = list(T.problems)
    reset_trace()
    want = oracle(case)
    ev_or = per_script(T.events, n)
    ctx.count('monitor.dispatch_events', sum(map(len, ev_real)))
    ctx.evaluated()
    ctx.tab('tag', case['tag'].split(':')[0])
    ctx.tab('verdict', f'real={verdict} oracle={want}')
    if case.get('budget'):
        k_, m_, L_ = case['budget']
        ctx.count('call_budget_lists')
        if (verdict is True) != (k_ + m_ <= L_):
            ctx.violation('call-budget-not-cumulative', f'{k_} calls in the '
                          f'witness and {m_} in the lock under call-stack '
                          f'limit {L_}: verdict {verdict!r} (the budget is '
                          'documented as cumulative over the whole list)',
                          case, k_ + m_ <= L_, repr(verdict))
            return
    if def_problems:
        if 'own RETURN' in def_problems[0]:
            ctx.violation('runs-past-own-return', 'a script went on after its '
                          'own explicit return: ' + def_problems[0], case)
        else:
            ctx.violation('call-runs-foreign-definition', 'a function a '
                          'script defined itself was not the one its CALL '
                          'executed (instructions of the script skipped): '
                          + def_problems[0], case)
        return
    stack_problems = [p for p in mon.problems if p[0].startswith('stack-')]
    if stack_problems:
        ctx.violation('auth-stack-limit-bypassed', 'an instruction that had '
                      'to raise on the shared stack (limit of items / item '
                      'size, bytes only) stored its result without raising: '
                      + stack_problems[0][1], case, 'the script raises',
                      stack_problems[0][0])
        return
    if exc is not None:
        ctx.violation('auth-raises', 'run_auth_scripts raised '
                      f'{type(exc).__name__} instead of returning False',
                      case, 'False', repr(exc)[:160])
        return
    if (v2, type(e2)) != (verdict, type(exc)):
        ctx.inconclusive_because('instrumented replay of run_auth_scripts '
                                 f'gave {v2!r} but the plain call {verdict!r}')
        return
    if verdict is not True and verdict is not False:
        ctx.violation('auth-non-bool', 'run_auth_scripts returned a non-bool',
                      case, 'bool', repr(verdict))
        return
    if verdict != want:
        key = 'auth-accepts' if verdict else 'auth-rejects'
        # mechanism: a later script dispatched fewer instructions than under
        # the oracle -> truncated / skipped
        for k in range(n):
            if len(ev_real[k]) < len(ev_or[k]) and \
                    ev_real[k] == ev_or[k][:len(ev_real[k])] and k >= 1:
                key += '-later-script-truncated'
                break
        ctx.violation(key, 'verdict differs from the contract (every script '
                      'runs to its own end without raising, stack == [ff])',
                      case, want, verdict,
                      {'dispatched_real': [len(x) for x in ev_real],
                       'dispatched_oracle': [len(x) for x in ev_or]})
        return
    # trace equality per script up to the first raising instruction
    for k in range(n):
        if ev_real[k] != ev_or[k]:
            ctx.violation('auth-trace-differs', f'script #{k} dispatched '
                          'other instructions than under the contract '
                          '(skipped / extra instruction)', case,
                          ev_or[k][:12], ev_real[k][:12])
            return
    if verdict:
        for k, tp in enumerate(tops_real):
            if tp.pointer < len(tp.data):
                ctx.violation('auth-true-with-unfinished-script', f'verdict '
                              f'True but script #{k} stopped at {tp.pointer}'
                              f'/{len(tp.data)}', case)
                return
    # second, fully independent opinion: the reference interpreter
    ref = reference_verdict(case)
    ctx.tab('reference_vm', 'unspecified' if ref is None else
            ('agrees' if ref == verdict else 'DIFFERS'))
    if ref is not None and ref != verdict:
        ctx.violation('auth-differs-from-reference-vm', 'verdict differs from '
                      'the reference interpreter written from the documents '
                      '(an instruction inside a script does not behave as '
                      'documented, and it changes the authorization)', case,
                      ref, verdict)
        return
    if verdict or (n >= 2 and sum(1 for x in ev_real if x) >= 2):
        ctx.mark_nontrivial(dg(case))
    if verdict:
        ctx.count('verdict_true')


def run_shard(spec, ctx):
    i, of = spec['shard'], spec['of']
    n = NCASE[ctx.tier] // of
    done = 0
    while done < n:
        m = min(BATCH, n - done)
        cases = [gen_case(ctx.rng(done + j)) for j in range(m)]
        plain = [real(c) for c in cases]          # uninstrumented outcomes
        saved = install_tracer()
        try:
            for c, (v, e) in zip(cases, plain):
                judge_traced(ctx, c, v, e)
        finally:
            remove_tracer(saved)
        if done == 0:
            for c in cases[:40]:
                if c['tag'] == 'pair' and len(b''.join(c['scripts'])) < 80:
                    ctx.sample({'scripts': c['scripts'], 'limits': [
                        c['max_items'], c['max_item_size'], c['limit']]})
                    break
        done += m
    # deprecated single-script entry point, under every kind of limit, with
    # positional and keyword arguments
    functions = env.mods()[0]
    for j in range(400 if ctx.tier == 'quick' else 6000):
        rng = ctx.rng(('single', j))
        s = auth.lock(rng)[0] if j % 2 else \
            auth.witness(rng, {'handles': [0]}) + auth.lock(rng)[0]
        case = {'scripts': [s], 'cache': {}, 'tag': 'single',
                'max_items': rng.choice(LIMITS['max_items']),
                'max_item_size': rng.choice(LIMITS['max_item_size']),
                'limit': rng.choice(LIMITS['limit'])}
        try:
            if j % 3 == 0:
                a = functions.run_auth_script(
                    s, {}, {}, {}, case['max_items'], case['max_item_size'],
                    case['limit'])
            else:
                a = functions.run_auth_script(
                    s, stack_max_items=case['max_items'],
                    stack_max_item_size=case['max_item_size'],
                    callstack_limit=case['limit'])
        except BaseException as e:
            a = repr(e)
        b = oracle(case)
        ctx.evaluated()
        if a != b:
            ctx.violation('auth-single-differs', 'run_auth_script verdict '
                          'differs from the contract', case, b, a)


def finalize(agg, tier):
    out = []
    c = agg['counters']
    if not c.get('monitor.dispatch_events'):
        out.append('dispatch tracer recorded no event')
    if c.get('cutoff_control_true', 0) < 500:
        out.append('fewer than 500 cut-off cases whose control list authorizes')
    if not c.get('verdict_true'):
        out.append('no case with verdict True was generated')
    return out


def replay(case, ctx):
    if case.get('tag') == 'single':
        functions = env.mods()[0]
        try:
            a = functions.run_auth_script(
                case['scripts'][0], {}, {}, {}, case['max_items'],
                case['max_item_size'], case['limit'])
        except BaseException as e:
            a = repr(e)
        b = oracle(case)
        ctx.evaluated()
        if a != b:
            ctx.violation('auth-single-differs', 'run_auth_script verdict '
                          'differs from the contract', case, b, a)
        return
    v, e = real(case)
    saved = install_tracer()
    try:
        judge_traced(ctx, case, v, e)
    finally:
        remove_tracer(saved)
