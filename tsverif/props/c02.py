"""C02 — signature instructions verify exactly the flag-selected message.

One-instruction scripts are run through the real run_script; the oracle is the
sigfield message model (ref/sigmsg.py) + Ed25519 validity decided outside
tapescript. A metamorphic battery (bit flips in key / signature / covered and
excluded fields) rides on every signed case.
"""
from __future__ import annotations
import hashlib

from .. import env
from ..ref import isa, sigmsg

ID = 'C02'
RULE = ('GET_MESSAGE: all 256 flags x all 256 presence patterns (exhaustive); '
        'CHECK_SIG(_VERIFY): flag x allowed matrix (quick: 256 flags x 24 '
        'masks, thorough: full 256x256) x random presence/contents, each with '
        'a real signature when flag is a subset of allowed, + rotating '
        'single-bit corruptions of key, signature, covered and excluded '
        'fields, wrong lengths, invalid key points; SIGN / SIGN_STACK / '
        'CHECK_SIG_STACK and in-VM sign-then-check. distinct = by full case; '
        'non-trivial = expected verdict True, or expected verdict differs '
        'from that of the unperturbed parent'
        ' [plus shuffled dict insertion order, one excluded field of 1000-9000 bytes, an item limit that is exactly the operands, and sign-in-one-run / check-in-another under a registered rewriting extension with all four checkers]')
ASSUMPTIONS = [
    'libsodium called directly (nacl.bindings) is the fast Ed25519 oracle; it '
    'is cross-checked against a pure-Python RFC 8032 implementation on a '
    'deterministic sample of cases (disagreement -> inconclusive)',
    'a one-in-2^128 coincidence (corrupted signature still verifies) is '
    'ignored',
    'no plugins installed, except in the runs that register one rewriting '
    'signature extension for the process (sign in one run, check in another)',
]
NSH = 16


def shards(tier, seed):
    return [{'shard': i, 'of': NSH} for i in range(NSH)]


def run(prog, cache, items=None):
    """items: the stack item limit of the run (default: a roomy one) - a
    signature instruction needs no more room than its operands take"""
    functions = env.mods()[0]
    lim = env.roomy_limits(prog)
    if items is not None:
        lim['stack_max_items'] = items
    try:
        _, stack, c = functions.run_script(prog, cache, **lim)
        return list(stack.deque), None
    except BaseException as e:
        return None, e


def mk_fields(rng, presence: int) -> dict:
    out = {}
    for i in range(1, 9):
        if (presence >> (i - 1)) & 1:
            r = rng.random()
            if r < 0.12:
                v = b''
            elif r < 0.2 and out:
                v = rng.choice(list(out.values()))      # equal to another field
            else:
                n = rng.choice((1, 2, 3, 8, 16, 32, 33, 64, 100, 200))
                v = bytes(rng.getrandbits(8) for _ in range(n))
            out[f'sigfield{i}'] = v
    # the message is a stack item: all fields together stay below the item
    # limit of the runs (1024), whatever the flag selects
    while sum(map(len, out.values())) > 1000:
        k = max(out, key=lambda x: len(out[x]))
        out[k] = out[k][:len(out[k]) // 2]
    # a caller's dict has whatever insertion order the caller produced; the
    # message is the concatenation in INDEX order all the same
    if rng.random() < 0.6:
        ks = list(out)
        rng.shuffle(ks)
        out = {k: out[k] for k in ks}
    return out


def big_excluded(rng, fields, f):
    """the same fields with ONE field that flag byte f excludes made large
    (up to several times the item limit of any run): what a signature does
    not cover is irrelevant, whatever its size"""
    ex = [i for i in range(1, 9) if (f >> (i - 1)) & 1]
    if not ex:
        return None
    i = rng.choice(ex)
    n = rng.choice((1000, 1024, 1025, 2000, 5000, 9000))
    return dict(fields, **{f'sigfield{i}': bytes(rng.getrandbits(8)
                                                 for _ in range(8)) * (n // 8)})


def dg(case) -> bytes:
    return hashlib.blake2b(repr(case).encode(), digest_size=8).digest()


class St:
    n = 0           # running index (rotates corruption positions)
    slow_every = 97


def fast_slow(ctx, pk, msg, sig64) -> bool:
    ok = sigmsg.valid_fast(pk, msg, sig64)
    St.n += 1
    if St.n % St.slow_every == 0:
        ctx.count('reference_crosschecks')
        if sigmsg.valid_slow(pk, msg, sig64) != ok:
            ctx.inconclusive_because(
                'reference-disagreement libsodium vs pure-Python on '
                f'pk={pk.hex()} sig={sig64.hex()} msg={msg.hex()[:80]}')
    return ok


def expect_check_sig(ctx, fields, key, sig, allowed):
    """-> 'error' | True | False | 'not-true'"""
    if len(key) != 32 or len(sig) not in (64, 65):
        return 'error'
    f = sig[64] if len(sig) == 65 else 0
    if f & ~allowed & 0xff:
        return 'error'
    msg = sigmsg.message(fields, f)
    ok = fast_slow(ctx, key, msg, sig[:64])
    if ok:
        return True
    from ..ref import ed25519 as E
    if E.point_class(key) != 'main':
        return 'not-true'           # invalid key encodings: false or error
    return False


def observe(st, exc):
    if exc is not None:
        return 'error'
    if len(st) >= 1 and st[-1] == b'\xff':
        return True
    if len(st) >= 1 and st[-1] == b'\x00':
        return False
    return ('odd', [x.hex() for x in st])


def judge_check_sig(ctx, case, parent_expect=None):
    """case: fields, key, sig, allowed, [below]"""
    fields, key, sig, allowed = (case['fields'], case['key'], case['sig'],
                                 case['allowed'])
    below = case.get('below', [])
    pre = b''.join(isa.push1(x) for x in below)
    prog = pre + isa.push1(sig) + isa.push1(key) + isa.op('CHECK_SIG') \
        + bytes([allowed])
    want = expect_check_sig(ctx, fields, key, sig, allowed)
    # every third case under an item limit that is exactly what the operands
    # (and the items below them) take
    St.n += 1
    tight = len(below) + 2 if St.n % 3 == 0 else None
    ctx.tab('item_limit', 'exactly-the-operands' if tight else 'roomy')
    st, exc = run(prog, dict(fields), tight)
    got = observe(st, exc)
    ctx.evaluated()
    ctx.tab('check_sig_expected', want)
    bad = False
    if want == 'not-true':
        bad = got is True
    elif got != want:
        bad = True
    elif exc is None and st[:-1] != list(below):
        bad = True
        got = ('stack-below-changed', [x.hex() for x in st])
    if bad:
        key_ = {True: 'check-sig-missed-valid', False: 'check-sig-accepts',
                'error': 'check-sig-no-error',
                'not-true': 'check-sig-accepts'}[want]
        if want is False and got == 'error':
            key_ = 'check-sig-error-instead-of-false'
        ctx.violation(key_ + case.get('tag', ''), 'CHECK_SIG result differs '
                      'from the flag-selected-message model', case, want,
                      repr(exc)[:120] if exc else got)
    # _VERIFY form: raises exactly when the plain form does not yield True
    progv = pre + isa.push1(sig) + isa.push1(key) \
        + isa.op('CHECK_SIG_VERIFY') + bytes([allowed])
    stv, excv = run(progv, dict(fields), tight)
    if want is True:
        if excv is not None or stv != list(below):
            ctx.violation('check-sig-verify-rejects', 'CHECK_SIG_VERIFY '
                          'raised / left a result although the signature is '
                          'valid', case, 'no error, nothing left',
                          repr(excv)[:120] if excv else [x.hex() for x in stv])
    elif excv is None:
        ctx.violation('check-sig-verify-accepts', 'CHECK_SIG_VERIFY did not '
                      'raise', case, 'error', [x.hex() for x in stv])
    if want is True or (parent_expect is not None and want != parent_expect):
        ctx.mark_nontrivial(dg(case))
    return want


def flip(b: bytes, bit: int) -> bytes:
    a = bytearray(b)
    a[bit // 8] ^= 1 << (bit % 8)
    return bytes(a)


def signed_case(ctx, rng, f, allowed, presence, j):
    """One (flag, allowed) cell with a real signature + the battery."""
    if j % 4 == 2:
        failed_run_first(ctx, rng, f)
    fields = mk_fields(rng, presence)
    seed = bytes(rng.getrandbits(8) for _ in range(32))
    pk = sigmsg.pubkey(seed)
    msg = sigmsg.message(fields, f)
    sig = sigmsg.sign(seed, msg)
    if f:
        sig += bytes([f])
    elif rng.random() < 0.3:
        sig += b'\x00'                     # 65 bytes with an explicit 0 flag
    below = [b'\x07'] if rng.random() < 0.3 else []
    base = {'kind': 'check_sig', 'fields': fields, 'key': pk, 'sig': sig,
            'allowed': allowed, 'below': below}
    want = judge_check_sig(ctx, base)
    if j % 50 == 0:
        ctx.sample(base)
    if want is not True:
        return          # flag not permitted: error case, no battery
    cov = sigmsg.covered(fields, f)
    # key bit, signature bit: rotate over all positions
    for tag, c in (
            ('-keybit', dict(base, key=flip(pk, j % 256))),
            ('-sigbit', dict(base, sig=flip(sig, (j * 7) % 512))),
    ):
        c['tag'] = tag
        judge_check_sig(ctx, c, parent_expect=True)
    # covered field: first / last / random bit
    if cov and any(fields[f'sigfield{i}'] for i in cov):
        i = rng.choice([i for i in cov if fields[f'sigfield{i}']])
        v = fields[f'sigfield{i}']
        bit = rng.choice((0, len(v) * 8 - 1, rng.randrange(len(v) * 8)))
        c = dict(base, fields=dict(fields, **{f'sigfield{i}': flip(v, bit)}),
                 tag='-covered-field')
        judge_check_sig(ctx, c, parent_expect=True)
    # covered field removed / a covered empty field made non-empty
    if cov:
        i = rng.choice(cov)
        if fields[f'sigfield{i}']:
            nf = dict(fields)
            del nf[f'sigfield{i}']
            judge_check_sig(ctx, dict(base, fields=nf, tag='-covered-removed'),
                            parent_expect=True)
    # excluded field changed / absent field added under a set flag bit:
    # verdict must stay True
    for i in range(1, 9):
        if (f >> (i - 1)) & 1:
            nf = dict(fields)
            nf[f'sigfield{i}'] = bytes(rng.getrandbits(8) for _ in range(5))
            judge_check_sig(ctx, dict(base, fields=nf, tag='-excluded-field'))
            break
    nf = big_excluded(rng, fields, f) if j % 2 == 0 else None
    if nf is not None:
        judge_check_sig(ctx, dict(base, fields=nf, tag='-excluded-field-large'))
    # swap two covered fields with different contents -> order matters
    if len(cov) >= 2:
        a, b = cov[0], cov[-1]
        va, vb = fields[f'sigfield{a}'], fields[f'sigfield{b}']
        if va + vb != vb + va or len(cov) > 2:
            nf = dict(fields, **{f'sigfield{a}': vb, f'sigfield{b}': va})
            if sigmsg.message(nf, f) != msg:
                judge_check_sig(ctx, dict(base, fields=nf, tag='-swapped'),
                                parent_expect=True)
    # the flag byte itself changed to another permitted flag -> other message
    if j % 3 == 0:
        for g in range(256):
            if g != f and not (g & ~allowed & 0xff) \
                    and sigmsg.message(fields, g) != msg:
                c = dict(base, sig=sig[:64] + (bytes([g]) if g else b''),
                         tag='-flagbyte')
                judge_check_sig(ctx, c, parent_expect=True)
                break
    # wrong lengths
    if j % 5 == 0:
        for c in (dict(base, key=pk[:31]), dict(base, key=pk + b'\x00'),
                  dict(base, sig=sig[:63]), dict(base, sig=sig[:64] + b'\x00\x00'),
                  dict(base, sig=b''), dict(base, key=b'')):
            c['tag'] = '-length'
            judge_check_sig(ctx, c, parent_expect=True)


INVALID_KEYS = [
    bytes(32), b'\x01' + bytes(31), bytes([0xec]) + b'\xff' * 30 + b'\x7f',
    b'\xff' * 32, bytes.fromhex('26e8958fc2b227b045c3f489f2ef98f0d5dfac05d3c63339b13802886d53fc05'),
    b'\x02' + bytes(31),
]


def judge_get_message(ctx, f, presence, fields):
    ctx.evaluated()
    st, exc = run(isa.op('GET_MESSAGE') + bytes([f]), dict(fields))
    want = sigmsg.message(fields, f)
    if exc is not None or st != [want]:
        ctx.violation('get-message-wrong', 'GET_MESSAGE differs from the '
                      'model message', {'kind': 'get_message', 'f': f,
                                        'fields': fields}, want.hex(),
                      repr(exc)[:100] if exc else [x.hex() for x in st])
    if want:
        ctx.mark_nontrivial(dg(('gm', f, presence)))


def judge_under_extension(ctx, case, seed, pk, fields, f, allowed):
    import tapescript
    ctx.count('runs_under_registered_extension')
    rew = dict(fields)
    env.rewriting_extension(None, None, rew)
    msg = sigmsg.message(rew, f)
    case = dict(case, kind='sign-ext', allowed=allowed)
    tapescript.add_signature_extension(env.rewriting_extension)
    try:
        ctx.evaluated()
        st, exc = run(isa.op('GET_MESSAGE') + bytes([f]), dict(fields))
        if exc is not None or st != [msg]:
            ctx.violation('extension-message-wrong', 'GET_MESSAGE under a '
                          'registered extension is not the message over the '
                          'once-rewritten fields', case, msg.hex(),
                          repr(exc)[:100] if exc else [x.hex() for x in st])
            return
        st, exc = run(isa.push1(seed) + isa.op('SIGN') + bytes([f]),
                      dict(fields))
        if exc is not None or len(st) != 1 or not sigmsg.valid_fast(
                pk, msg, st[0][:64]):
            ctx.violation('extension-sign-wrong', 'SIGN under a registered '
                          'extension does not sign the once-rewritten '
                          'message', case, 'valid signature',
                          repr(exc)[:100] if exc else [x.hex() for x in st])
            return
        sig = st[0]
        for name, tail, want in (
                ('CHECK_SIG', isa.op('CHECK_SIG') + bytes([allowed]),
                 [b'\xff']),
                ('CHECK_SIG_VERIFY', isa.op('CHECK_SIG_VERIFY')
                 + bytes([allowed]) + isa.op('TRUE'), [b'\xff']),
                ('CHECK_MULTISIG', isa.op('CHECK_MULTISIG')
                 + bytes([allowed, 1, 1]), [b'\xff']),
                ('CHECK_MULTISIG_VERIFY', isa.op('CHECK_MULTISIG_VERIFY')
                 + bytes([allowed, 1, 1]) + isa.op('TRUE'), [b'\xff'])):
            ctx.evaluated()
            st, exc = run(isa.push1(sig) + isa.push1(pk) + tail, dict(fields))
            if exc is not None or st != want:
                ctx.violation('extension-check-differs', f'{name} under a '
                              'registered extension rejects the signature '
                              'SIGN made under the same extension over the '
                              'same fields (another run)',
                              dict(case, checker=name), 'ff',
                              repr(exc)[:100] if exc else
                              [x.hex() for x in st])
                return
        ctx.mark_nontrivial(dg(case))
    finally:
        tapescript.reset_signature_extensions()


def failed_run_first(ctx, rng, f):
    """a run of this PROCESS in which building the message for flag f fails
    (the covered fields exceed the item limit - an ordinary script error):
    nothing of it may reach the runs that follow"""
    cov = [i for i in range(1, 9) if not (f >> (i - 1)) & 1]
    if not cov:
        return
    big = {f'sigfield{rng.choice(cov)}': bytes(9000)}
    seed = bytes(rng.getrandbits(8) for _ in range(32))
    for prog in (isa.push1(seed) + isa.op('SIGN') + bytes([f]),
                 isa.op('GET_MESSAGE') + bytes([f]),
                 isa.push1(bytes(64) + (bytes([f]) if f else b''))
                 + isa.push1(sigmsg.pubkey(seed)) + isa.op('CHECK_SIG')
                 + bytes([f])):
        run(prog, dict(big))
    ctx.count('failed_runs_before_a_case')


def judge_sign(ctx, rng, f, presence, j):
    if j % 4 == 2:
        failed_run_first(ctx, rng, f)
    fields = mk_fields(rng, presence)
    seed = bytes(rng.getrandbits(8) for _ in range(32))
    pk = sigmsg.pubkey(seed)
    if j % 3 == 0:
        fields = big_excluded(rng, fields, f) or fields
    case = {'kind': 'sign', 'fields': fields, 'seed': seed, 'f': f}
    ctx.evaluated()
    st, exc = run(isa.push1(seed) + isa.op('SIGN') + bytes([f]), dict(fields))
    msg = sigmsg.message(fields, f)
    ok = exc is None and len(st) == 1 and len(st[0]) == (65 if f else 64) \
        and (not f or st[0][64] == f) and fast_slow(ctx, pk, msg, st[0][:64])
    if not ok:
        ctx.violation('sign-wrong', 'SIGN output is not a valid signature '
                      '(+flag byte iff f != 0) over the model message under '
                      'the RFC 8032 key of the seed', case, '64(+1) bytes valid',
                      repr(exc)[:100] if exc else [x.hex() for x in st])
    else:
        ctx.mark_nontrivial(dg(case))
    # in-VM sign-then-check for an allowed mask that permits f
    allowed = f | rng.getrandbits(8)
    prog = isa.push1(seed) + isa.op('SIGN') + bytes([f]) + isa.push1(pk) \
        + isa.op('CHECK_SIG') + bytes([allowed])
    st, exc = run(prog, dict(fields))
    ctx.evaluated()
    if exc is not None or st != [b'\xff']:
        ctx.violation('sign-then-check-fails', 'SIGN f then CHECK_SIG a with '
                      'f subset of a does not yield true',
                      dict(case, allowed=allowed), 'ff',
                      repr(exc)[:100] if exc else [x.hex() for x in st])
    # the same instructions in a process whose embedder registered a
    # signature extension that rewrites sigfield1 (once per signature-related
    # instruction): every one of them works on the SAME rewritten message, so
    # a signature made in one run checks in another, with either checker
    if j % 4 == 1:
        judge_under_extension(ctx, case, seed, pk, fields, f, allowed)
    # wrong seed length -> error
    if j % 7 == 0:
        st, exc = run(isa.push1(seed[:31]) + isa.op('SIGN') + bytes([f]),
                      dict(fields))
        if exc is None:
            ctx.violation('sign-bad-seed-no-error', 'SIGN with a 31-byte seed '
                          'did not raise', case, 'error',
                          [x.hex() for x in st])


def judge_stack_forms(ctx, rng, j):
    seed = bytes(rng.getrandbits(8) for _ in range(32))
    pk = sigmsg.pubkey(seed)
    msg = bytes(rng.getrandbits(8) for _ in range(rng.choice((0, 1, 32, 200))))
    case = {'kind': 'sign_stack', 'seed': seed, 'msg': msg}
    ctx.evaluated()
    st, exc = run(isa.push1(msg) + isa.push1(seed) + isa.op('SIGN_STACK'), {})
    if exc is not None or len(st) != 1 or len(st[0]) != 64 \
            or not fast_slow(ctx, pk, msg, st[0]):
        ctx.violation('sign-stack-wrong', 'SIGN_STACK output does not verify',
                      case, 'valid 64-byte signature',
                      repr(exc)[:100] if exc else [x.hex() for x in st])
        return
    sig = st[0]
    ctx.mark_nontrivial(dg(case))
    variants = [('ok', sig, msg, pk, True),
                ('sigbit', flip(sig, (j * 11) % 512), msg, pk, False),
                ('keybit', sig, msg, flip(pk, j % 256), 'not-true'),
                ('msg', sig, msg + b'\x00', pk, False),
                ('siglen', sig + b'\x00', msg, pk, 'error'),
                ('keylen', sig, msg, pk[:31], 'error')]
    if msg:
        variants.append(('msgbit', sig, flip(msg, j % (len(msg) * 8)), pk, False))
    for tag, s, m, k, want in variants:
        ctx.evaluated()
        prog = isa.push1(s) + isa.push1(m) + isa.push1(k) \
            + isa.op('CHECK_SIG_STACK')
        st, exc = run(prog, {})
        got = observe(st, exc)
        bad = (got is True) if want == 'not-true' else (got != want)
        if want is False and got == 'error':
            bad = True
        if bad:
            ctx.violation('check-sig-stack-' + tag, 'CHECK_SIG_STACK result '
                          'differs from Ed25519 validity',
                          {'kind': 'css', 'sig': s, 'msg': m, 'key': k}, want,
                          repr(exc)[:100] if exc else got)
        elif want is not True:
            ctx.mark_nontrivial(dg(('css', tag, s, m, k)))


def judge_sequences(ctx, rng, j):
    """several signature instructions in ONE run: every check is decided on
    its own (key, signature, message) - nothing remembered from an earlier
    check in the same script may leak into a later one."""
    fields = mk_fields(rng, rng.getrandbits(8) | 1)
    sa, sb = (bytes(rng.getrandbits(8) for _ in range(32)) for _ in range(2))
    pa, pb = sigmsg.pubkey(sa), sigmsg.pubkey(sb)
    f = rng.choice((0, 0, 1, 2, 0x80))
    sig = sigmsg.sign(sa, sigmsg.message(fields, f)) + (bytes([f]) if f else b'')
    variants = [sig]
    if not f:
        variants.append(sig + b'\x00')
    g = f ^ rng.choice((1, 2, 4, 0x40))
    if sigmsg.message(fields, g) == sigmsg.message(fields, f):
        variants.append(sig[:64] + (bytes([g]) if g else b''))
    # the same 64 bytes under ANOTHER flag byte (or none): another message,
    # so a verdict of its own - whatever the check before it found
    h = f ^ (1 << rng.randrange(8))
    variants.append(sig[:64] + (bytes([h]) if h else b''))
    if f:
        variants.append(sig[:64])
    steps = [(sig, pa)]
    if rng.random() < 0.5:
        steps.append((variants[-1], pa))
    for _ in range(rng.randrange(1, 4)):
        steps.append((rng.choice(variants), rng.choice((pa, pb, pb))))
    prog = b''
    want = []
    for s_, k_ in steps:
        prog += isa.push1(s_) + isa.push1(k_) + isa.op('CHECK_SIG') + b'\xff'
        fb = s_[64] if len(s_) == 65 else 0
        want.append(b'\xff' if sigmsg.valid_fast(
            k_, sigmsg.message(fields, fb), s_[:64]) else b'\x00')
    ctx.evaluated()
    st, exc = run(prog, dict(fields))
    case = {'kind': 'sequence', 'fields': fields, 'prog': prog}
    if exc is not None or st != want:
        ctx.violation('check-sig-sequence', 'a sequence of CHECK_SIGs in one '
                      'script does not give each check its own verdict', case,
                      [x.hex() for x in want],
                      repr(exc)[:100] if exc else [x.hex() for x in st])
    elif b'\x00' in want:
        ctx.mark_nontrivial(dg(case))
    # the same through CHECK_SIG_STACK and SIGN twice with different flags
    m = bytes(rng.getrandbits(8) for _ in range(9))
    s1 = sigmsg.sign(sa, m)
    prog = isa.push1(s1) + isa.push1(m) + isa.push1(pa) \
        + isa.op('CHECK_SIG_STACK') + isa.push1(s1) + isa.push1(m) \
        + isa.push1(pb) + isa.op('CHECK_SIG_STACK')
    ctx.evaluated()
    st, exc = run(prog, {})
    if exc is not None or st != [b'\xff', b'\x00']:
        ctx.violation('check-sig-stack-sequence', 'CHECK_SIG_STACK twice in '
                      'one script (same signature, other key)',
                      {'kind': 'sequence', 'fields': {}, 'prog': prog},
                      ['ff', '00'], repr(exc)[:100] if exc
                      else [x.hex() for x in st])
    f1, f2 = rng.getrandbits(8), rng.getrandbits(8)
    prog = isa.push1(sa) + isa.op('SIGN') + bytes([f1]) + isa.push1(sa) \
        + isa.op('SIGN') + bytes([f2])
    ctx.evaluated()
    st, exc = run(prog, dict(fields))
    ok = exc is None and len(st) == 2 and all(
        sigmsg.valid_fast(pa, sigmsg.message(fields, ff), x[:64])
        and len(x) == (65 if ff else 64)
        for x, ff in zip(st, (f1, f2)))
    if not ok:
        ctx.violation('sign-sequence', 'SIGN twice with different flags in '
                      'one script', {'kind': 'sequence', 'fields': fields,
                                     'prog': prog}, 'two valid signatures',
                      repr(exc)[:100] if exc else [x.hex()[:20] for x in st])


def masks_for(rng, f):
    ms = {0, 0xff, f}
    for b in range(8):
        if (f >> b) & 1:
            ms.add(f & ~(1 << b))
        else:
            ms.add(f | (1 << b))
    while len(ms) < 24:
        ms.add(rng.getrandbits(8))
    return sorted(ms)[:24] if len(ms) > 24 else sorted(ms)


def run_shard(spec, ctx):
    i, of = spec['shard'], spec['of']
    rng = ctx.rng('main')
    # (1) GET_MESSAGE exhaustive: flags x presence, split by flag residue
    for f in range(i, 256, of):
        for presence in range(256):
            fields = {}
            for k in range(1, 9):
                if (presence >> (k - 1)) & 1:
                    # distinct, length-varying contents incl. one empty field
                    fields[f'sigfield{k}'] = b'' if (k == 5 and presence & 1) \
                        else bytes([k]) * k + bytes([presence ^ k])
            judge_get_message(ctx, f, presence, fields)
            nf = big_excluded(rng, fields, f) if (f + presence) % 4 == 0 \
                else None
            if nf is not None:
                judge_get_message(ctx, f, presence | 256, nf)
    ctx.exhaustive('GET_MESSAGE: 256 flags x 256 presence patterns')
    # (2) CHECK_SIG matrix
    j = i
    for f in range(i, 256, of):
        masks = range(256) if ctx.tier == 'thorough' else masks_for(rng, f)
        for a in masks:
            presence = rng.getrandbits(8) | (1 << rng.randrange(8))
            signed_case(ctx, rng, f, a, presence, j)
            j += of
    if ctx.tier == 'thorough':
        ctx.exhaustive('CHECK_SIG: full 256x256 flag x allowed matrix')
    # (3) invalid key points: never True
    for n, k in enumerate(INVALID_KEYS):
        if n % of == i % len(INVALID_KEYS) or of == 1:
            fields = mk_fields(rng, 0x0f)
            sig = bytes(rng.getrandbits(8) for _ in range(64))
            for s in (sig, bytes(64), k + bytes(32)):
                judge_check_sig(ctx, {'kind': 'check_sig', 'fields': fields,
                                      'key': k, 'sig': s, 'allowed': 0xff,
                                      'tag': '-invalid-key'})
    # (4) SIGN for every flag (split), sign-then-check in the VM
    for f in range(i, 256, of):
        for rep in range(2 if ctx.tier == 'quick' else 64):
            judge_sign(ctx, rng, f, rng.getrandbits(8), f * 31 + rep)
    # (5) stack forms
    for r in range(40 if ctx.tier == 'quick' else 4000):
        judge_stack_forms(ctx, rng, i + r * of)
    # (6) several signature instructions in one run
    for r in range(150 if ctx.tier == 'quick' else 16000):
        judge_sequences(ctx, rng, i + r * of)


def finalize(agg, tier):
    out = []
    t = agg['tables'].get('check_sig_expected', {})
    for k in ('True', 'False', 'error'):
        if not t.get(k):
            out.append(f'CHECK_SIG expected outcome {k} never generated')
    if not agg['counters'].get('reference_crosschecks'):
        out.append('pure-Python reference never consulted')
    return out


def replay(case, ctx):
    k = case.get('kind')
    rng = ctx.rng('replay')
    if k == 'check_sig':
        judge_check_sig(ctx, case)
    elif k == 'get_message':
        judge_get_message(ctx, case['f'], 0, case['fields'])
    elif k in ('sign',):
        # re-run the deterministic part on the recorded inputs
        fields, seed, f = case['fields'], case['seed'], case['f']
        st, exc = run(isa.push1(seed) + isa.op('SIGN') + bytes([f]),
                      dict(fields))
        msg = sigmsg.message(fields, f)
        ok = exc is None and len(st) == 1 and len(st[0]) == (65 if f else 64) \
            and sigmsg.valid_fast(sigmsg.pubkey(seed), msg, st[0][:64])
        ctx.evaluated()
        if not ok:
            ctx.violation('sign-wrong', 'SIGN output invalid', case)
        if 'allowed' in case:
            prog = isa.push1(seed) + isa.op('SIGN') + bytes([f]) \
                + isa.push1(sigmsg.pubkey(seed)) + isa.op('CHECK_SIG') \
                + bytes([case['allowed']])
            st, exc = run(prog, dict(fields))
            if exc is not None or st != [b'\xff']:
                ctx.violation('sign-then-check-fails', 'sign-then-check',
                              case)
    elif k == 'sign-ext':
        judge_under_extension(ctx, case, case['seed'],
                              sigmsg.pubkey(case['seed']), case['fields'],
                              case['f'], case['allowed'])
    elif k == 'sequence':
        ctx.evaluated()
        st, exc = run(case['prog'], dict(case['fields']))
        ctx.count('replayed_sequence')
    elif k == 'css':
        prog = isa.push1(case['sig']) + isa.push1(case['msg']) \
            + isa.push1(case['key']) + isa.op('CHECK_SIG_STACK')
        st, exc = run(prog, {})
        ctx.evaluated()
        want = sigmsg.valid_fast(case['key'], case['msg'], case['sig'])
        got = observe(st, exc)
        if (got is True) != want:
            ctx.violation('check-sig-stack-replay', 'CHECK_SIG_STACK', case,
                          want, got)
    else:
        judge_stack_forms(ctx, rng, 0)
