"""C04 — merklized scripts: only committed branches run, and every one can.

Observed: run_auth_scripts verdict; a *leaf beacon* (every generated leaf body
starts by invoking a recording contract with its leaf id, so the invocation log
names the leaf bodies that started); the number of instructions dispatched on
any tape whose data equals a supplied script. Oracle: independent commitment
model (ref/merkle.py) that recomputes every root and simulates which supplied
scripts may execute.
"""
from __future__ import annotations
import hashlib

from .. import env
from ..ref import asm, isa, merkle

ID = 'C04'
RULE = ('all binary tree shapes with 2..6 (quick) / 2..8 (thorough) leaves '
        'built with ScriptNode/ScriptLeaf (thorough: up to 9), every leaf proven; prioritized and '
        'balanced builders for 1..24 leaves; verdict-diverse leaf bodies up '
        'to the item limit; per proof the corruptions {flip script byte, flip '
        'sibling byte, swap two levels, drop a level, splice foreign leaf, '
        'replace leaf by `true`}; pack/unpack of every tree. distinct = by '
        '(tree shape, leaf index, corruption, bytes); non-trivial = tree depth '
        '>= 2 or a corruption case'
        ' [plus leaves padded to exactly 20/31/32/33/64/65/128/255/256/257 bytes, non-default unequal limits, configuration-sensitive leaf bodies judged a second time under a non-default configuration, and for builder trees a foreign leaf below a self-paired (root 00..00) node at every revealed sibling position]')
ASSUMPTIONS = [
    'sibling commitments differ (leaf scripts of one tree are pairwise '
    'different: each carries its own beacon id)',
    'a corrupted proof that still hashes to the root per the model (XOR makes '
    'sibling order irrelevant) is counted as legitimately accepted, not judged',
    'sha256 collisions are ignored',
]
NSH = 16
O = isa.op
CID = b'\xbe\xac'


def shards(tier, seed):
    return [{'shard': i, 'of': NSH} for i in range(NSH)]


class Beacon:
    log: list = []

    def abi(self, args):
        Beacon.log.append(bytes(args[0]) if args else b'')
        return []


class Tr:
    counts: dict = {}
    total = 0


def install_tracer():
    functions = env.mods()[0]
    saved = (dict(functions.opcodes), dict(functions.nopcodes))

    def wrap(name, fn):
        def traced(tape, stack, cache):
            Tr.total += 1
            d = tape.data
            Tr.counts[d] = Tr.counts.get(d, 0) + 1
            fn(tape, stack, cache)
        return traced
    for table in (functions.opcodes, functions.nopcodes):
        for c, (name, fn) in list(table.items()):
            table[c] = (name, wrap(name, fn))
    return saved


def remove_tracer(saved):
    functions = env.mods()[0]
    functions.opcodes.clear()
    functions.opcodes.update(saved[0])
    functions.nopcodes.clear()
    functions.nopcodes.update(saved[1])


def beacon(leaf_id: bytes) -> bytes:
    return isa.push(leaf_id) + isa.push(b'\x01') + isa.push(CID) + O('INVOKE')


BODIES = [
    ('true', O('TRUE'), True),
    ('false', O('FALSE'), False),
    ('two', O('TRUE') + O('TRUE'), False),
    ('verify', isa.push(b'\x05') + O('VERIFY') + O('TRUE'), True),
    ('fail', O('FALSE') + O('VERIFY') + O('TRUE'), False),
    ('return', O('TRUE') + O('RETURN') + O('FALSE'), True),
    ('if', O('TRUE') + isa.IF(O('TRUE')), True),
    ('ifret', O('TRUE') + O('TRUE') + isa.IF(O('RETURN')) + O('FALSE'), True),
    ('empty', b'', False),
    # an evaluated script that RETURNs ends only itself: the block
    # instruction after it and what follows still run (at every depth the
    # leaf is reached at)
    ('evalret-if', isa.push(O('TRUE') + O('RETURN') + O('FALSE')) + O('EVAL')
     + isa.IF(O('TRUE') + O('POP0')) + O('TRUE'), True),
    ('evalret-try', isa.push(O('RETURN')) + O('EVAL')
     + isa.TRY(O('TRUE') + O('POP0'), b'') + O('TRUE'), True),
    ('evalret-if-fail', isa.push(O('TRUE') + O('RETURN')) + O('EVAL')
     + O('TRUE') + isa.IF(O('TRUE') + O('POP0')) + O('NOT'), False),
    ('eq', isa.push(b'ab') + O('DUP') + O('EQUAL'), True),
    # leaves whose verdict depends on what the verifier configured for the
    # run (slack thresholds, a register flag): judged under CONFIG below
    ('ts-slack', isa.push((env.NOW0 + 100).to_bytes(4, 'big'))
     + O('CHECK_TIMESTAMP'), False),
    ('epoch-slack', isa.push((env.NOW0 + 5000).to_bytes(4, 'big'))
     + O('CHECK_EPOCH'), False),
    ('register', isa.push(bytes(range(32))) + O('DERIVE_SCALAR') + O('POP0')
     + O('READ_CACHE_SIZE') + b'\x01x' + O('NOT'), False),
]
# a verifier configuration under which the three leaves above flip
CONFIG = {'ts_threshold': 10 ** 6, 'epoch_threshold': 10 ** 6, 1: False}
CONFIG_CACHE = {'timestamp': env.NOW0 + 300}


def run_configured(script: bytes):
    """verdict of ONE script under CONFIG, through run_script (the entry
    point that takes flags)"""
    functions = env.mods()[0]
    Beacon.log = []
    env.Clock.now = env.NOW0
    try:
        _, stack, _ = functions.run_script(
            script, dict(CONFIG_CACHE), {CID: Beacon()}, dict(CONFIG))
        return list(stack.deque) == [b'\xff']
    except BaseException:
        return False


def leaf_script(rng, leaf_id: bytes, pad_ok=True):
    name, body, _ = rng.choice(BODIES)
    s = beacon(leaf_id) + body
    if pad_ok and rng.random() < 0.15:
        n = rng.choice((100, 200, 850))
        s = beacon(leaf_id) + isa.push(bytes(n)) + O('POP0') + body
    elif rng.random() < 0.25:
        # a leaf of EXACTLY the length of a digest / a key / a signature / a
        # size-field boundary (harmless two- and three-byte fillers)
        want = rng.choice((20, 31, 32, 32, 32, 33, 64, 65) if not pad_ok else
                          (20, 31, 32, 32, 32, 33, 64, 65, 128, 255, 256, 257))
        gap = want - len(s)
        if gap >= 2:
            three = gap % 2
            fill = (O('TRUE') + O('POP0')) * ((gap - 3 * three) // 2) \
                + (isa.push(b'\x09') + O('POP0')) * three
            s = beacon(leaf_id) + fill + body
            assert len(s) == want
    return s


def run_auth(scripts):
    functions = env.mods()[0]
    Beacon.log = []
    Tr.counts = {}
    try:
        ss = [bytes(x) for x in scripts]
        # under limits the verifier configured (roomy, but not the defaults
        # and not equal to each other)
        return functions.run_auth_scripts(ss, {}, {CID: Beacon()},
                                          **env.roomy_limits(*ss))
    except BaseException as e:
        return e


def real_tree(t, rng=None):
    """nested tuples / bytes -> tools.ScriptNode / ScriptLeaf (+ leaf list).
    With rng, the tree is built bottom-up *with queries interleaved*: some
    intermediate nodes are asked for their root / locking script / the
    unlocking scripts of the leaves below them / their serialisation before
    they are placed under their parent (a tree built step by step is still a
    tree built with the tree classes)."""
    tools = env.mods()[2]
    leaves = []

    def under(node, acc):
        if isinstance(node, tools.ScriptLeaf):
            acc.append(node)
        else:
            under(node.left, acc)
            under(node.right, acc)
        return acc

    def rec(x):
        if isinstance(x, bytes):
            lf = tools.ScriptLeaf.from_script(tools.Script('', x))
            leaves.append(lf)
            return lf
        node = tools.ScriptNode(rec(x[0]), rec(x[1]))
        if rng is not None and rng.random() < 0.5:
            Q.interleaved += 1
            node.root()
            node.locking_script()
            node.unlocking_script()
            for lf in under(node, []):
                lf.unlocking_script()
            if rng.random() < 0.3:
                node.pack()
        return node
    return rec(t), leaves


class Q:
    interleaved = 0


def witness_items(b: bytes):
    """parse a witness consisting of pushes into its item list"""
    items = []
    for n in asm.disassemble(b):
        if n[0] == 'op' and n[1] in ('OP_PUSH0', 'OP_PUSH1', 'OP_PUSH2'):
            v = n[2]
            items.append(bytes([v]) if isinstance(v, int) else v)
        else:
            raise ValueError('witness is not a push sequence: ' + repr(n)[:60])
    return items


def witness_bytes(items):
    return b''.join(isa.push(x) if x else b'\x03\x00' for x in items)


def dg(*x) -> bytes:
    return hashlib.blake2b(repr(x).encode(), digest_size=8).digest()


def own_verdict(leaf: bytes):
    v = run_auth([leaf])
    return v is True


def judge_proof(ctx, tag, lock: bytes, unlock: bytes, leaf: bytes,
                model_items, model_root, nontrivial, case_extra):
    """completeness for one leaf"""
    ctx.evaluated()
    case = {'kind': 'proof', 'tag': tag, 'lock': lock, 'unlock': unlock,
            'leaf': leaf, **case_extra}
    if lock != merkle.lock_bytes(model_root):
        ctx.violation('lock-root-differs', 'locking script is not '
                      'OP_MERKLEVAL <model root>', case,
                      merkle.lock_bytes(model_root).hex(), lock.hex())
        return False
    try:
        items = witness_items(unlock)
    except (ValueError, asm.DisasmError) as e:
        ctx.violation('unlock-not-pushes', 'unlocking script is not a push '
                      f'sequence: {e}', case)
        return False
    if model_items is not None and items != model_items:
        ctx.violation('unlock-proof-differs', 'unlocking script does not '
                      'carry the (sibling commitment, script) pairs of this '
                      'leaf', case, [x.hex()[:16] for x in model_items],
                      [x.hex()[:16] for x in items])
        return False
    want = own_verdict(leaf)
    got = run_auth([unlock, lock])
    log = list(Beacon.log)
    leaf_id = witness_items(leaf[:len(leaf)])[0] if False else None
    if got is not want:
        ctx.violation('committed-branch-verdict-differs', 'unlock+lock '
                      "verdict is not the leaf script's own verdict", case,
                      want, repr(got)[:80])
        return False
    if len(log) != 1:
        ctx.violation('beacon-log-not-exactly-this-leaf', 'leaf bodies that '
                      f'started: {len(log)} (expected exactly the proven '
                      'leaf)', case, 1, [x.hex() for x in log])
        return False
    ctx.tab('leaf_verdict', want)
    # the same under a non-default verifier configuration: what the run was
    # given governs the committed leaf as it governs the leaf run on its own
    ctx.evaluated()
    own_c = run_configured(leaf)
    via_c = run_configured(unlock + lock)
    ctx.tab('leaf_verdict_configured', own_c)
    if via_c is not own_c:
        ctx.violation('committed-branch-verdict-differs', 'under a verifier '
                      'configuration (slack thresholds, register flag) the '
                      "unlock+lock verdict is not the leaf script's own "
                      'verdict', dict(case, configured=True), own_c, via_c)
        return False
    if nontrivial:
        ctx.mark_nontrivial(dg(tag, lock, unlock))
    return True


def judge_corruptions(ctx, rng, tag, lock, root, items, foreign_leaf):
    functions = env.mods()[0]
    nlev = len(items) // 2
    variants = []
    # flip a script byte / a sibling byte at a random level
    lv = rng.randrange(nlev)
    s = bytearray(items[2 * lv + 1])
    if s:
        s[rng.randrange(len(s))] ^= 1 << rng.randrange(8)
        variants.append(('flip-script', items[:2 * lv + 1] + [bytes(s)]
                         + items[2 * lv + 2:]))
    lv = rng.randrange(nlev)
    h = bytearray(items[2 * lv])
    h[rng.randrange(len(h))] ^= 1 << rng.randrange(8)
    variants.append(('flip-sibling', items[:2 * lv] + [bytes(h)]
                     + items[2 * lv + 1:]))
    if nlev >= 2:
        a, b = rng.sample(range(nlev), 2)
        sw = list(items)
        sw[2 * a:2 * a + 2], sw[2 * b:2 * b + 2] = \
            items[2 * b:2 * b + 2], items[2 * a:2 * a + 2]
        variants.append(('swap-levels', sw))
        variants.append(('drop-top-level', items[:-2]))
        variants.append(('drop-leaf-level', items[2:]))
    variants.append(('foreign-leaf', [items[0], foreign_leaf] + items[2:]))
    variants.append(('leaf-true', [items[0], O('TRUE')] + items[2:]))
    variants.append(('swap-pair', [items[1], items[0]] + items[2:]))
    for name, its in variants:
        ctx.evaluated()
        executed, accepted, leaf = merkle.simulate(its, root)
        wit = witness_bytes(its)
        got = run_auth([wit, lock])
        log = list(Beacon.log)
        case = {'kind': 'corrupt', 'tag': tag, 'corruption': name,
                'lock': lock, 'witness': wit}
        ctx.tab('corruption', name)
        if accepted:
            ctx.count('corruptions_legitimately_accepted')
            continue
        if got is not False:
            ctx.violation('uncommitted-proof-accepted', f'corruption {name}: '
                          'verdict is not False although the data does not '
                          'hash to the root', case, False, repr(got)[:80])
            continue
        supplied = [its[k] for k in range(1, len(its), 2)]
        bad = [x for x in supplied
               if x not in executed and Tr.counts.get(x, 0)
               and x not in (wit, lock)]
        if bad:
            ctx.violation('uncommitted-script-executed', f'corruption {name}: '
                          f'{Tr.counts[bad[0]]} instruction(s) of a supplied '
                          'script ran although it does not hash to the root',
                          case, 0, Tr.counts[bad[0]])
            continue
        if log:
            ctx.violation('uncommitted-leaf-started', f'corruption {name}: a '
                          'leaf body started (beacon fired)', case, [],
                          [x.hex() for x in log])
            continue
        ctx.mark_nontrivial(dg(tag, name, wit))


def judge_tree(ctx, rng, shape, tag):
    tools = env.mods()[2]
    n = 0

    def count(s):
        return 1 if s is None else count(s[0]) + count(s[1])
    n = count(shape)
    uid = rng.getrandbits(32).to_bytes(4, 'big')
    leaves = [leaf_script(rng, uid + bytes([k])) for k in range(n)]
    model = merkle.fill(shape, leaves)
    root = merkle.root(model)
    node, real_leaves = real_tree(model, rng if rng.random() < 0.6 else None)
    try:
        lock = bytes(node.locking_script())
        if node.root() != root:
            ctx.violation('root-differs', 'ScriptNode.root() differs from the '
                          'model root', {'kind': 'tree', 'tag': tag,
                                         'leaves': leaves}, root.hex(),
                          node.root().hex())
            return
    except BaseException as e:
        ctx.violation('tree-build-raised', repr(e)[:120],
                      {'kind': 'tree', 'tag': tag, 'leaves': leaves})
        return
    deep = merkle.depth(model) >= 2
    foreign = leaf_script(rng, b'\xff\xff\xff\xff\x00', pad_ok=False)
    proofs = list(merkle.proofs(model))
    for k, ((leaf, levels), rl) in enumerate(zip(proofs, real_leaves)):
        items = []
        for sib, script in levels:
            items += [sib, script]
        unlock = bytes(rl.unlocking_script())
        ok = judge_proof(ctx, f'{tag}#{k}', lock, unlock, leaf, items, root,
                         deep, {'leaves': leaves, 'shape': repr(shape)})
        if ok:
            judge_corruptions(ctx, rng, f'{tag}#{k}', lock, root, items,
                              foreign)
    # (c) pack / unpack
    ctx.evaluated()
    try:
        back = tools.ScriptNode.unpack(node.pack())
        if back.root() != root:
            ctx.violation('pack-unpack-root', 'root changed by pack/unpack',
                          {'kind': 'tree', 'tag': tag, 'leaves': leaves})
        bl = []

        def walk(x):
            if isinstance(x, tools.ScriptLeaf):
                bl.append(x)
            else:
                walk(x.left)
                walk(x.right)
        walk(back)
        a = [bytes(x.unlocking_script()) for x in bl]
        b = [bytes(x.unlocking_script()) for x in real_leaves]
        if a != b:
            ctx.violation('pack-unpack-unlocking', 'unlocking scripts changed '
                          'by pack/unpack', {'kind': 'tree', 'tag': tag,
                                             'leaves': leaves})
        else:
            ctx.count('trees_pack_unpack_ok')
    except BaseException as e:
        ctx.violation('pack-unpack-raised', f'pack/unpack raised {e!r}'[:140],
                      {'kind': 'tree', 'tag': tag, 'leaves': leaves})


def judge_self_paired(ctx, tag, k, lock, items, foreign, extra):
    """The builders were given pairwise distinct leaves, so every node of
    their tree - filler positions included - has two different children and
    no script but the committed ones can run. The forgery that equal children
    would allow: a node whose two children are equal has root 0 (the xor of
    two equal digests), and (X, sha256(X)) opens `MERKLEVAL 00..00` for ANY
    script X. Every sibling commitment an honest proof reveals is tried as
    such a node, with a foreign leaf X below it."""
    zero_lock = merkle.lock_bytes(bytes(32))
    nlev = len(items) // 2
    for lv in range(nlev + 1):
        ctx.evaluated()
        if lv == nlev:
            forged = [merkle.H(foreign), foreign]       # the root itself
        else:
            forged = [merkle.H(foreign), foreign,
                      merkle.H(items[2 * lv + 1]), zero_lock] \
                + items[2 * lv + 2:]
        wit = witness_bytes(forged)
        got = run_auth([wit, lock])
        log = list(Beacon.log)
        ctx.count('self_paired_forgeries_tried')
        if got is not False or log or Tr.counts.get(foreign, 0):
            ctx.violation('builder-tree-admits-foreign-leaf', f'{tag}: a '
                          'script that was never handed to the builder runs '
                          f'below the sibling of leaf #{k} at level {lv}: '
                          'that position holds a node with two EQUAL children '
                          '(root 00..00), which any (script, sha256(script)) '
                          'pair opens', dict(extra, kind='self-paired',
                                             lock=lock, witness=wit,
                                             foreign=foreign),
                          'False, nothing started',
                          f'{got!r} beacon={[x.hex() for x in log]}'[:120])
            return


def judge_builder(ctx, rng, nleaves, which):
    tools = env.mods()[2]
    uid = rng.getrandbits(32).to_bytes(4, 'big')
    leaves = [leaf_script(rng, uid + bytes([k]), pad_ok=False)
              for k in range(nleaves)]
    scripts = [tools.Script.from_bytes(x) for x in leaves]
    tag = f'{which}:{nleaves}'
    try:
        if which == 'prioritized':
            lock, unlocks = tools.make_merklized_script_prioritized(
                list(scripts))
        else:
            lock, unlocks = tools.make_merklized_script_balanced(list(scripts))
    except BaseException as e:
        ctx.violation('builder-raised', f'{tag}: {e!r}'[:140],
                      {'kind': 'builder', 'which': which, 'leaves': leaves})
        return
    lock = bytes(lock)
    if len(unlocks) < nleaves:
        ctx.violation('builder-missing-unlocks', f'{tag}: {len(unlocks)} '
                      'unlocking scripts', {'kind': 'builder', 'which': which,
                                            'leaves': leaves})
        return
    root = lock[1:]
    for k in range(nleaves):
        unlock = bytes(unlocks[k])
        ok = judge_proof(ctx, f'{tag}#{k}', lock, unlock, leaves[k], None,
                         root, nleaves > 2, {'leaves': leaves, 'which': which})
        if ok:
            its = witness_items(unlock)
            if its[1] != leaves[k]:
                ctx.violation('builder-unlock-wrong-leaf', f'{tag}: unlocking '
                              f'script #{k} proves another leaf',
                              {'kind': 'builder', 'which': which,
                               'leaves': leaves})
            elif k % 3 == 0:
                judge_corruptions(ctx, rng, f'{tag}#{k}', lock, root, its,
                                  leaf_script(rng, b'\xee' * 5, pad_ok=False))
            judge_self_paired(ctx, tag, k, lock, its,
                              leaf_script(rng, b'\xec' * 5, pad_ok=False),
                              {'leaves': leaves, 'which': which})
    # history: a prioritized tree that was already queried is extended with
    # more leaves through the builder's `tree` argument
    if which == 'prioritized' and nleaves >= 2 and nleaves % 2 == 0:
        ctx.evaluated()
        try:
            k = rng.randrange(1, nleaves)
            first = [tools.Script.from_bytes(x) for x in leaves[k:]]
            sub = tools.make_script_tree_prioritized(list(first))
            sub.locking_script()
            sub.unlocking_script()
            sub.left.unlocking_script()
            sub.right.unlocking_script()
            more = [tools.Script.from_bytes(x) for x in leaves[:k]]
            big = tools.make_script_tree_prioritized(list(more), sub)
            Q.interleaved += 1
            found = []

            def walk(x):
                if isinstance(x, tools.ScriptLeaf):
                    found.append(x)
                else:
                    walk(x.left)
                    walk(x.right)
            walk(big)
            lock2 = bytes(big.locking_script())
            for lf in found:
                body = bytes(lf.script)
                if body not in leaves:
                    continue
                judge_proof(ctx, f'{tag}:extended', lock2,
                            bytes(lf.unlocking_script()), body, None,
                            lock2[1:], True, {'leaves': leaves,
                                              'which': 'extended'})
        except BaseException as e:
            ctx.violation('builder-raised', f'{tag} extension: {e!r}'[:140],
                          {'kind': 'builder', 'which': 'extended',
                           'leaves': leaves})
    # filler positions (extra unlocking scripts) must not authorise
    for k in range(nleaves, len(unlocks)):
        ctx.evaluated()
        got = run_auth([bytes(unlocks[k]), lock])
        if got is not False:
            ctx.violation('filler-branch-authorises', f'{tag}: filler '
                          f'unlocking script #{k} authorises',
                          {'kind': 'builder', 'which': which,
                           'leaves': leaves})


def from_library(e) -> bool:
    """did the exception come out of the code under test (innermost frame in
    the tapescript package)? a failure of the harness itself stays a harness
    error"""
    tb = e.__traceback__
    last = None
    while tb is not None:
        last = tb
        tb = tb.tb_next
    fn = last.tb_frame.f_code.co_filename if last is not None else ''
    return '/tapescript/' in fn and '/tsverif/' not in fn


def run_shard(spec, ctx):
    i, of = spec['shard'], spec['of']
    maxleaves = 6 if ctx.tier == 'quick' else 10
    saved = install_tracer()
    try:
        idx = 0
        for n in range(2, maxleaves + 1):
            for shape in merkle.shapes(n):
                idx += 1
                if idx % of != i:
                    continue
                try:
                    judge_tree(ctx, ctx.rng(('tree', idx)), shape,
                               f'shape{n}:{idx}')
                except BaseException as e:
                    if not from_library(e):
                        raise
                    # the tree classes raised on a tree of valid leaves: a
                    # committed branch cannot get its unlocking script
                    ctx.violation('tree-classes-raised', f'shape{n}:{idx}: '
                                  f'{type(e).__name__}: {e}'[:200],
                                  {'kind': 'tree-raised', 'shape': repr(shape),
                                   'idx': idx, 'n': n})
                if idx % 16 == 0:
                    ctx.sample({'shape': repr(shape), 'leaves': n})
        ctx.exhaustive(f'all binary tree shapes with 2..{maxleaves} leaves, '
                       'every leaf')
        reps = 1 if ctx.tier == 'quick' else 60
        for n in range(1, 25):
            for which in ('prioritized', 'balanced'):
                for r in range(reps):
                    if (n * 2 + (which == 'balanced') + r) % of == i:
                        try:
                            judge_builder(ctx, ctx.rng(('b', n, which, r)), n,
                                          which)
                        except BaseException as e:
                            if not from_library(e):
                                raise
                            ctx.violation('builder-raised', f'{which}:{n}: '
                                          f'{type(e).__name__}: {e}'[:200],
                                          {'kind': 'builder-raised',
                                           'which': which, 'n': n, 'r': r})
        ctx.count('monitor.dispatches', Tr.total)
        ctx.count('trees_built_with_interleaved_queries', Q.interleaved)
    finally:
        remove_tracer(saved)


def finalize(agg, tier):
    out = []
    c = agg['counters']
    if not c.get('monitor.dispatches'):
        out.append('dispatch tracer saw nothing')
    v = agg['tables'].get('leaf_verdict', {})
    if not v.get('True') or not v.get('False'):
        out.append(f'leaf verdicts not diverse: {v}')
    if not c.get('trees_pack_unpack_ok'):
        out.append('no tree was packed/unpacked')
    return out


def replay(case, ctx):
    saved = install_tracer()
    try:
        k = case.get('kind')
        if k == 'proof':
            judge_proof(ctx, case['tag'], case['lock'], case['unlock'],
                        case['leaf'], None, case['lock'][1:], True, {})
        elif k == 'corrupt':
            its = witness_items(case['witness'])
            executed, accepted, leaf = merkle.simulate(its, case['lock'][1:])
            got = run_auth([case['witness'], case['lock']])
            ctx.evaluated()
            if not accepted and got is not False:
                ctx.violation('uncommitted-proof-accepted', 'replay', case)
            supplied = [its[j] for j in range(1, len(its), 2)]
            if not accepted and (Beacon.log or any(
                    x not in executed and Tr.counts.get(x, 0)
                    for x in supplied)):
                ctx.violation('uncommitted-script-executed', 'replay', case)
        elif k == 'self-paired':
            ctx.evaluated()
            got = run_auth([case['witness'], case['lock']])
            if got is not False or Beacon.log or \
                    Tr.counts.get(case['foreign'], 0):
                ctx.violation('builder-tree-admits-foreign-leaf', 'replay',
                              case, False, repr(got)[:60])
        elif k in ('tree-raised', 'builder-raised'):
            # the recorded position is regenerated from the run's seed
            ctx.evaluated()
            try:
                if k == 'tree-raised':
                    judge_tree(ctx, ctx.rng(('tree', case['idx'])),
                               eval(case['shape'], {'None': None}),
                               f"shape{case['n']}:{case['idx']}")
                else:
                    judge_builder(ctx, ctx.rng(('b', case['n'], case['which'],
                                                case['r'])), case['n'],
                                  case['which'])
            except BaseException as e:
                if not from_library(e):
                    raise
                ctx.violation('tree-classes-raised' if k == 'tree-raised'
                              else 'builder-raised',
                              f'replay: {type(e).__name__}: {e}'[:200], case)
        else:
            ctx.evaluated()
    finally:
        remove_tracer(saved)
