"""C13 — signature and commitment lock builders: exactly the intended holder
can unlock.

Intent model (not the VM): for every builder pair the sibling builder's witness
unlocks, and the lock rejects when exactly one dimension is wrong — key, covered
sigfield, non-permitted flag, committed / surrogate script, surrogate signer —
plus every witness of every builder made only with keys foreign to the lock.
"""
from __future__ import annotations
import hashlib

from .. import env
from ..gen import auth as _auth
from ..ref import isa, sigmsg

ID = 'C13'
BUILDER_DEFAULTS = True     # tools.* goes through tsverif/omit.py
RULE = ('scenarios = seeds x sigfield subsets / contents (0..200 bytes incl. '
        'bytes spelling tokens, quotes, braces) x (flag, allowed) pairs x '
        'committed / surrogate scripts (verdict-diverse, up to ~900 bytes); '
        'per scenario the builder pairs single-sig (2 layouts), m-of-n '
        'multisig, script-hash, graftroot key + surrogate, graftap key + '
        'script, each positive and with one dimension perturbed, and foreign-'
        'key cross-pairings of every witness with every lock. distinct = by '
        '(lock bytes, witness bytes, check-time fields); non-trivial = any '
        'negative case, or a positive with flag != 0'
        ' [plus shuffled field order, registers-off and process-wide-extension processes, repeated keys in multisig key lists, script witnesses (programs instead of data, alone and in front of the honest witness), script objects with a history (part committed, extended with +, sum committed)]')
ASSUMPTIONS = [
    'cryptographic never-claims judged on sampled perturbations',
    'same-key cross-builder pairings are executed and counted, not judged',
    'script-hash has no key: its negative dimension is "different script"',
]
NSH = 16
NSCEN = {'quick': 1600, 'thorough': 90_000}
O = isa.op

NASTY = [b'"', b"'", b'{ }', b'# x #', b' } else { ', b'end_if', b'\x00',
         b's"unterminated', b'~! { true }', b'push x01', b'\n', b'\xff' * 40]


def shards(tier, seed):
    return [{'shard': i, 'of': NSH} for i in range(NSH)]


def rbytes(rng, n):
    return bytes(rng.getrandbits(8) for _ in range(n))


COMMITTED = [
    (O('TRUE'), True), (O('FALSE'), False), (O('TRUE') + O('TRUE'), False),
    (isa.push(b'\x01\x02') + O('SHA256') + O('POP0') + O('TRUE'), True),
    (O('FALSE') + O('VERIFY') + O('TRUE'), False),
    (O('TRUE') + O('RETURN') + O('FALSE'), True),
    (isa.DEF(5, O('TRUE')) + isa.CALL(5), True),
    (O('TRUE') + isa.IF(O('TRUE')), True),
    (O('TRUE') + isa.TRY(O('FALSE') + O('VERIFY'), b''), True),
]


def committed(rng):
    s, v = rng.choice(COMMITTED)
    r = rng.random()
    if r < 0.25:
        s = isa.push(rbytes(rng, rng.choice((1, 30, 200, 250)))) + O('POP0') + s
    elif r < 0.32:
        s = (isa.push(bytes(250)) + O('POP0')) * 3 + s
    return s, v


def auth(scripts, fields):
    functions = env.mods()[0]
    try:
        ss = [bytes(s) for s in scripts]
        return functions.run_auth_scripts(ss, dict(fields),
                                          **env.roomy_limits(*ss))
    except BaseException as e:
        return e


def dg(*x) -> bytes:
    h = hashlib.blake2b(digest_size=8)
    for y in x:
        h.update(repr(y).encode())
    return h.digest()


def scenario(ctx, rng, j):
    functions, parsing, tools, _, _ = env.mods()
    t = tools
    A, B, C, D = (rbytes(rng, 32) for _ in range(4))
    pA, pB, pC, pD = (sigmsg.pubkey(x) for x in (A, B, C, D))
    fields = {}
    for k in range(1, 9):
        if rng.random() < 0.55:
            r = rng.random()
            fields[f'sigfield{k}'] = (
                rng.choice(NASTY) if r < 0.2 else
                rbytes(rng, rng.choice((0, 1, 8, 32, 100, 200))))
    if not any(fields.values()):
        fields['sigfield1'] = b'payload'
    # the signed message is pushed onto the stack: keep it under the default
    # item limit (1024)
    while sum(map(len, fields.values())) > 900:
        k = max(fields, key=lambda x: len(fields[x]))
        fields[k] = fields[k][:len(fields[k]) // 2]
    # a caller's dict has whatever insertion order the caller produced
    if rng.random() < 0.6:
        ks = list(fields)
        rng.shuffle(ks)
        fields = {k: fields[k] for k in ks}
    allowed = rng.choice((0x00, 0x01, 0x03, 0x0f, 0xf0, 0x7f, 0x80,
                          rng.getrandbits(8) & 0x7f, rng.getrandbits(8)))
    if allowed == 0xff:
        allowed = 0xfe
    sub = [f for f in range(256) if not (f & ~allowed & 0xff)]
    f = rng.choice(sub) if rng.random() < 0.7 else 0
    if sigmsg.message(fields, f) == b'' and rng.random() < 0.8:
        f = 0
    # minimal excess: a permitted flag plus exactly one non-permitted bit
    # (rotating over the bits), so a mask that is one bit too wide is seen
    free = [b for b in range(8) if not (allowed >> b) & 1]
    fbad = (f | (1 << free[j % len(free)])) if free else None
    if fbad == 0xff:
        fbad = None
    a_hex, f_hex = f'{allowed:02x}', f'{f:02x}'
    S, vS = committed(rng)
    S2, _ = committed(rng)
    if S2 == S:
        S2 = S + O('TRUE')
    sS, sS2 = t.Script('s', S), t.Script('s2', S2)

    # check-time field variants
    cov = [k for k in sigmsg.covered(fields, f)]
    f_cov = None
    if cov:
        k = rng.choice(cov)
        f_cov = dict(fields)
        v = fields[f'sigfield{k}']
        f_cov[f'sigfield{k}'] = (v[:-1] + bytes([v[-1] ^ 1])) if v and \
            rng.random() < 0.7 else v + b'\x01'
    f_exc = None
    exc = [k for k in range(1, 9) if (f >> (k - 1)) & 1]
    if exc:
        k = rng.choice(exc)
        f_exc = dict(fields)
        f_exc[f'sigfield{k}'] = rbytes(rng, 6)

    def judge(name, scripts, flds, want, nontrivial=True, judged=True):
        ctx.evaluated()
        got = auth(scripts, flds)
        ctx.tab('pairing', name.split(':')[0])
        if not judged:
            ctx.count('pairings_counted_not_judged')
            return
        if (got is True) != want:
            key = ('builder-accepts:' if got is True else 'builder-rejects:') \
                + name
            ctx.violation(key, f'{name}: verdict differs from the intent '
                          'model', {'name': name,
                                    'scripts': [bytes(s) for s in scripts],
                                    'fields': flds, 'want': want}, want,
                          repr(got)[:80])
        elif nontrivial:
            ctx.mark_nontrivial(dg(name, [bytes(s) for s in scripts],
                                   sorted(flds.items())))
        ctx.tab('expected', want)

    def sig_family(fam, lock, mkwit, key_ok=A, key_bad=B):
        """a lock opened by a signature witness made by mkwit(seed, flags)"""
        judge(f'{fam}:ok', [mkwit(key_ok, f_hex), lock], fields, True,
              nontrivial=f != 0)
        judge(f'{fam}:other-key', [mkwit(key_bad, f_hex), lock], fields, False)
        if f_cov is not None:
            judge(f'{fam}:covered-field-changed',
                  [mkwit(key_ok, f_hex), lock], f_cov, False)
        if f_exc is not None:
            judge(f'{fam}:excluded-field-changed',
                  [mkwit(key_ok, f_hex), lock], f_exc, True)
        if fbad is not None:
            try:
                w = mkwit(key_ok, f'{fbad:02x}')
            except BaseException:
                w = None
            if w is not None:
                judge(f'{fam}:flag-not-permitted', [w, lock], fields, False)
        # a witness is a script: one that holds no signature at all (its own
        # definitions, cache entries, an early return) opens nothing, and in
        # front of the builder's witness it changes nothing
        if j % 4 == 0:
            alone, prefixes = _auth.script_witnesses(rng)
            for nm, w in alone:
                judge(f'{fam}:script-witness:{nm}', [w, lock], fields, False)
            for nm, w in prefixes:
                judge(f'{fam}:script-prefix:{nm}',
                      [w + bytes(mkwit(key_ok, f_hex)), lock], fields, True)

    # --- single-sig, both layouts
    l1 = t.make_single_sig_lock(pA, a_hex)
    sig_family('single', l1,
               lambda s, fl: t.make_single_sig_witness(s, fields, fl))
    l2 = t.make_single_sig_lock2(pA, a_hex)
    sig_family('single2', l2,
               lambda s, fl: t.make_single_sig_witness2(s, fields, fl))
    # --- multisig 2-of-3
    lm = t.make_multisig_lock([pA, pC, pD], 2, a_hex)

    def ms(s, fl):
        return t.make_single_sig_witness(s, fields, fl) + \
            t.make_single_sig_witness(C, fields, fl)
    sig_family('multisig', lm, ms)
    judge('multisig:one-signer-twice',
          [t.make_single_sig_witness(A, fields, f_hex)
           + t.make_single_sig_witness(A, fields, f_hex), lm], fields, False)
    judge('multisig:one-signature', [t.make_single_sig_witness(A, fields,
                                                               f_hex), lm],
          fields, False)
    others = [g for g in sub if g != f]
    if others:
        # one holder, two byte-different signatures (two permitted flags):
        # still one signer
        g = others[j % len(others)]
        judge('multisig:one-signer-two-flags',
              [t.make_single_sig_witness(A, fields, f_hex)
               + t.make_single_sig_witness(A, fields, f'{g:02x}'), lm],
              fields, False)
        judge('multisig:one-signer-two-flags',
              [t.make_single_sig_witness(A, fields, f'{g:02x}')
               + t.make_single_sig_witness(A, fields, f_hex), lm],
              fields, False)
    lm3 = t.make_multisig_lock([pA, pC, pD], 3, a_hex)
    judge('multisig:3of3-two-holders',
          [t.make_single_sig_witness(A, fields, f_hex)
           + t.make_single_sig_witness(C, fields, f_hex)
           + t.make_single_sig_witness(A, fields, f_hex), lm3], fields, False)
    judge('multisig:3of3-ok',
          [t.make_single_sig_witness(D, fields, f_hex)
           + t.make_single_sig_witness(A, fields, f_hex)
           + t.make_single_sig_witness(C, fields, f_hex), lm3], fields, True)
    # a key list that names a key twice ("quorum_size <= number of unique
    # pubkeys" is all the builder asks for): the two distinct holders open it,
    # one holder alone does not
    if j % 3 == 0:
        import nacl.signing as ns
        rep = rng.choice(([pA, pA, pC], [pA, pC, pA], [pC, pA, ns.VerifyKey(pA)],
                          [pA, pC, pC, pA]))
        try:
            lr = t.make_multisig_lock(rep, 2, a_hex)
        except BaseException as e:
            ctx.evaluated()
            ctx.violation('builder-raised:make_multisig_lock',
                          'make_multisig_lock refuses a key list naming a '
                          'key twice (2 of 2 unique keys)', {'name':
                          'multisig:repeated-key', 'fields': fields}, 'a lock',
                          repr(e)[:120])
            lr = None
        if lr is not None:
            judge('multisig:repeated-key:ok',
                  [t.make_single_sig_witness(A, fields, f_hex)
                   + t.make_single_sig_witness(C, fields, f_hex), lr],
                  fields, True)
            judge('multisig:repeated-key:one-holder',
                  [t.make_single_sig_witness(A, fields, f_hex)
                   + t.make_single_sig_witness(A, fields, f_hex), lr],
                  fields, False)
    # --- graftroot key path / graftap key path
    lg = t.make_graftroot_lock(pA, a_hex)
    sig_family('graftroot-key', lg,
               lambda s, fl: t.make_graftroot_witness_keyspend(s, fields, fl))
    lt = t.make_graftap_lock(pA, a_hex)
    sig_family('graftap-key', lt,
               lambda s, fl: t.make_graftap_witness_keyspend(s, fields, fl))
    # --- script-hash
    lh = t.make_scripthash_lock(sS, rng.choice((26, 26, 20, 32, 16)))
    judge('scripthash:ok', [t.make_scripthash_witness(sS), lh], fields, vS,
          nontrivial=True)
    judge('scripthash:other-script', [t.make_scripthash_witness(sS2), lh],
          fields, False)
    s3 = bytearray(S)
    s3[rng.randrange(len(s3))] ^= 1 << rng.randrange(8)
    judge('scripthash:script-bit', [isa.push(bytes(s3)), lh], fields, False)
    # --- scripts are OBJECTS with a history: one that was already committed
    # to is extended (a + b) and the sum is committed to (or the other way
    # round); every lock commits to exactly the script it was built for
    if j % 3 == 1:
        hsz = rng.choice((26, 20, 32))
        part = t.Script('true', O('TRUE'))
        rest = t.Script('', O('POP0') + S)
        first_part = rng.random() < 0.5
        if first_part:
            t.make_scripthash_lock(part, hsz)
            t.make_taproot_lock(pA, part)
        whole = part + rest
        lw = t.make_scripthash_lock(whole, hsz)
        ltw = t.make_taproot_lock(pA, whole)
        lp = t.make_scripthash_lock(part, hsz)
        ltp = t.make_taproot_lock(pA, part)
        tagh = 'part-first' if first_part else 'sum-first'
        judge(f'scripthash:sum:{tagh}:ok',
              [t.make_scripthash_witness(whole), lw], fields, vS)
        judge(f'scripthash:sum:{tagh}:part-only',
              [isa.push(O('TRUE')), lw], fields, False)
        judge(f'scripthash:part:{tagh}:ok',
              [t.make_scripthash_witness(part), lp], fields, True)
        judge(f'scripthash:part:{tagh}:sum',
              [isa.push(O('TRUE') + O('POP0') + S), lp], fields, False)
        judge(f'taproot:sum:{tagh}:ok',
              [t.make_taproot_witness_scriptspend(pA, whole), ltw], fields,
              vS)
        judge(f'taproot:sum:{tagh}:part-only',
              [t.make_taproot_witness_scriptspend(pA, part), ltw], fields,
              False)
        judge(f'taproot:part:{tagh}:ok',
              [t.make_taproot_witness_scriptspend(pA, part), ltp], fields,
              True)
    # --- a DIFFERENT script whose digest agrees with the commitment in its
    # last (or first) one or two bytes - found by search - is still a
    # different script
    if j % 40 == 7:
        hsz = rng.choice((26, 17, 26, 9))
        lk = t.make_scripthash_lock(sS, hsz)
        want_d = hashlib.shake_256(S).digest(hsz)
        nb_ = 2 if hsz % 8 == 2 else 1
        found = {}
        for cnt in range(200_000):
            X = isa.push(cnt.to_bytes(4, 'big') + b'\x00\x00\xac\x2f') \
                + O('POP0') + O('TRUE')
            dX = hashlib.shake_256(X).digest(hsz)
            if dX == want_d:
                continue
            if 'suffix' not in found and dX[-nb_:] == want_d[-nb_:]:
                found['suffix'] = X
            if 'prefix' not in found and dX[:nb_] == want_d[:nb_]:
                found['prefix'] = X
            if len(found) == 2:
                break
        for where, X in found.items():
            judge(f'scripthash:digest-shares-{where}', [isa.push(X), lk],
                  fields, False)
    # --- graftroot surrogate
    ws = t.make_graftroot_witness_surrogate(A, sS)
    judge('graftroot-surrogate:ok', [ws, lg], fields, vS)
    judge('graftroot-surrogate:signed-by-other',
          [t.make_graftroot_witness_surrogate(B, sS), lg], fields, False)
    # surrogate replaced after signing: signature of S with script S2
    wb = bytes(ws)
    if wb.count(isa.push(S)) == 1:
        judge('graftroot-surrogate:script-swapped',
              [wb.replace(isa.push(S), isa.push(S2)), lg], fields, False)
    # --- graftap script path
    wg = t.make_graftap_witness_scriptspend(A, sS)
    judge('graftap-script:ok', [wg, lt], fields, vS)
    judge('graftap-script:signed-by-other',
          [t.make_graftap_witness_scriptspend(B, sS), lt], fields, False)
    wgb = bytes(wg)
    if wgb.count(isa.push(S)) == 1:
        judge('graftap-script:script-swapped',
              [wgb.replace(isa.push(S), isa.push(S2)), lt], fields, False)
    # --- cross-pairing: every witness made ONLY with foreign keys vs every
    # key-bearing lock -> must reject
    foreign = {
        'single': t.make_single_sig_witness(B, fields, f_hex),
        'single2': t.make_single_sig_witness2(B, fields, f_hex),
        'multisig': t.make_single_sig_witness(B, fields, f_hex)
        + t.make_single_sig_witness(D, fields, f_hex),
        'graftroot-key': t.make_graftroot_witness_keyspend(B, fields, f_hex),
        'graftroot-sur': t.make_graftroot_witness_surrogate(
            B, t.Script('t', O('TRUE'))),
        'graftap-key': t.make_graftap_witness_keyspend(B, fields, f_hex),
        'graftap-script': t.make_graftap_witness_scriptspend(
            B, t.Script('t', O('TRUE'))),
    }
    locks = {'single': l1, 'single2': l2, 'graftroot': lg, 'graftap': lt,
             'multisig': t.make_multisig_lock([pA, pC], 2, a_hex)}
    for wn, w in foreign.items():
        for ln, lk in locks.items():
            if wn == 'multisig' and ln == 'multisig':
                continue
            judge(f'cross-foreign:{wn}->{ln}', [w, lk], fields, False)
    # same-key cross-builder pairings: executed, counted, not judged
    own = {'single': t.make_single_sig_witness(A, fields, f_hex),
           'graftroot-key': t.make_graftroot_witness_keyspend(A, fields, f_hex)}
    for wn, w in own.items():
        for ln, lk in (('single2', l2), ('graftap', lt)):
            judge(f'cross-same-key:{wn}->{ln}', [w, lk], fields, None,
                  judged=False)
    if j % 50 == 0:
        ctx.sample({'allowed': allowed, 'flag': f,
                    'lock_single': bytes(l1), 'fields': sorted(fields)})


def run_shard(spec, ctx):
    i, of = spec['shard'], spec['of']
    n = NSCEN[ctx.tier] // of
    for j in range(n):
        # a quarter of the scenarios live in a process configured with every
        # register export off (functions.flags[1..9] = False): locks and
        # builders work on the stack, not on the registers
        off = j % 4 == 1
        ctx.tab('registers', 'off' if off else 'default')
        # ... and another quarter with an embedder signature extension
        # registered for the whole process (it rewrites sigfield1 once per
        # signature-related instruction, for builders and locks alike)
        ext = j % 4 == 2
        ctx.tab('signature_extension', 'registered' if ext else 'none')
        if ext:
            import tapescript
            tapescript.add_signature_extension(env.rewriting_extension)
        try:
            with env.global_flags(env.REGISTERS_OFF if off else {}):
                scenario(ctx, ctx.rng(j), j)
        finally:
            if ext:
                tapescript.reset_signature_extensions()


def finalize(agg, tier):
    out = []
    e = agg['tables'].get('expected', {})
    if not e.get('True') or not e.get('False'):
        out.append(f'expected verdicts not diverse: {e}')
    if len(agg['tables'].get('pairing', {})) < 8:
        out.append('fewer than 8 builder families exercised')
    return out


def replay(case, ctx):
    ctx.evaluated()
    got = auth(case['scripts'], case['fields'])
    if case['want'] is not None and (got is True) != case['want']:
        ctx.violation(('builder-accepts:' if got is True else
                       'builder-rejects:') + case['name'], 'replay', case,
                      case['want'], repr(got)[:80])
