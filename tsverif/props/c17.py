"""C17 — adapter signatures are verifiable encryptions of a valid signature.

The adapter instructions and builders run on the real VM; every relation of the
statement is checked with the pure-Python Ed25519 reference (ref/ed25519.py):
check passes, single-bit alterations fail, decryption gives (R+T, sa+t) that
verifies under RFC 8032, s - sa == t, the adapter itself / a decryption with
another scalar is not a signature.
"""
from __future__ import annotations
import hashlib

from .. import env
from ..ref import ed25519 as E
from ..ref import isa, sigmsg

ID = 'C17'
BUILDER_DEFAULTS = True     # tools.* goes through tsverif/omit.py
RULE = ('tuples (seed, message 0..512 bytes, tweak): tweaks = random 32-byte '
        'strings clamped and unclamped, top bit set, edge scalars 1, 2, L-1, '
        'L+1, 2^252, 2^255-1; per tuple: CHECK_ADAPTER_SIG on the PUBLIC '
        'adapter, one single-bit corruption of each of sa / R / T / m / X '
        '(rotating positions), DECRYPT relations, wrong-scalar decryption, '
        'adapter-as-signature; builders (locks_pub, locks_prv, witness, '
        'decrypt, decrypt_adapter, deprecated one-script locks) end to end '
        'with sigfields and flags; MAKE_ADAPTER_SIG_PRIVATE consistency. '
        'distinct = by tuple and corruption; non-trivial = an unclamped / edge '
        'tweak or a corruption case'
        ' [plus the documented registers read back (@R @sa @T), same-run sequences, the zero tweak, adapters for another point / forged from a plain signature against the one-script locks, registers-off processes]')
ASSUMPTIONS = [
    'pure-Python RFC 8032 implementation is the signature reference',
    'the effective tweak scalar of a 32-byte string is its low 255 bits (how '
    'T = t*G is formed through the API); tweaks with t == 0 (mod L) are '
    'outside the premise "with point T = t*G"',
]
NSH = 16
NTUP = {'quick': 480, 'thorough': 24_000}
O = isa.op
L = E.L
MASK = (1 << 255) - 1


def shards(tier, seed):
    return [{'shard': i, 'of': NSH} for i in range(NSH)]


def rbytes(rng, n):
    return bytes(rng.getrandbits(8) for _ in range(n))


def run(prog, cache=None, flags=None):
    functions = env.mods()[0]
    try:
        _, stack, c = functions.run_script(prog, cache or {},
                                           additional_flags=flags or {},
                                           **env.roomy_limits(prog))
        return list(stack.deque), None
    except BaseException as e:
        return None, e


def le(n: int) -> bytes:
    return n.to_bytes(32, 'little')


def le2(n: int) -> bytes:
    return (n % (1 << 256)).to_bytes(32, 'little')


def flip(b: bytes, bit: int) -> bytes:
    a = bytearray(b)
    a[(bit // 8) % len(a)] ^= 1 << (bit % 8)
    return bytes(a)


def dg(*x) -> bytes:
    h = hashlib.blake2b(digest_size=8)
    for y in x:
        h.update(repr(y).encode())
    return h.digest()


def tweak_for(rng, j):
    kinds = ['clamped', 'random255', 'topbit', 'one', 'two', 'L-1', 'L+1',
             '2^252', '2^255-1', 'reduced']
    k = kinds[j % len(kinds)]
    if k == 'clamped':
        a = bytearray(rbytes(rng, 32))
        a[0] &= 248
        a[31] &= 127
        a[31] |= 64
        return k, bytes(a)
    if k == 'random255':
        a = bytearray(rbytes(rng, 32))
        a[31] &= 127
        return k, bytes(a)
    if k == 'topbit':
        a = bytearray(rbytes(rng, 32))
        a[31] |= 128
        return k, bytes(a)
    if k == 'reduced':
        return k, le(int.from_bytes(rbytes(rng, 40), 'little') % L or 1)
    n = {'one': 1, 'two': 2, 'L-1': L - 1, 'L+1': L + 1, '2^252': 2 ** 252,
         '2^255-1': 2 ** 255 - 1}[k]
    return k, le(n)


def cas_prog(X, T, m, R, sa):
    return isa.push(sa) + isa.push(R) + (isa.push(m) if m else b'\x03\x00') \
        + isa.push(T) + isa.push(X) + O('CHECK_ADAPTER_SIG')


IDENTITY = b'\x01' + bytes(31)         # 0*G: the tweak point of t = 0 (mod L)


def judge_zero_tweak(ctx, rng, j, fixed=None):
    """edge scalars t = 0 and t = L: T = t*G is the neutral element. An
    'adapter' for it IS a plain signature (R + 0 = R, sa + 0 = sa), so the
    instructions must not produce or accept one (the tree raises)."""
    seed = rbytes(rng, 32)
    m = rbytes(rng, rng.choice((0, 1, 32, 100)))
    if fixed:
        seed, m = fixed
    X = E.public_key(seed)
    pm = isa.push(m) if m else b'\x03\x00'
    base = {'kind': 'zero-tweak', 'seed': seed, 'm': m}
    ctx.evaluated()
    st, exc = run(isa.push(seed) + pm + isa.push(IDENTITY)
                  + O('MAKE_ADAPTER_SIG_PUBLIC'))
    if exc is None and len(st) == 2 and E.verify(X, m, st[0] + st[1]):
        ctx.violation('adapter-is-a-signature', 'MAKE_ADAPTER_SIG_PUBLIC '
                      'accepts the neutral element as tweak point: the '
                      'adapter it returns verifies as a plain signature',
                      dict(base, op='make'))
        return
    sig = E.sign(seed, m)
    ctx.evaluated()
    st, exc = run(cas_prog(X, IDENTITY, m, sig[:32], sig[32:]))
    if exc is None and st == [b'\xff']:
        ctx.violation('adapter-is-a-signature', 'CHECK_ADAPTER_SIG accepts a '
                      'plain signature as an adapter for the neutral tweak '
                      'point', dict(base, op='check'))
        return
    ctx.count('zero_tweak_points_refused')
    ctx.mark_nontrivial(dg('zero', seed, m))


def judge_tuple(ctx, rng, j):
    functions = env.mods()[0]
    if j % 12 == 5:
        judge_zero_tweak(ctx, rng, j)
    seed = rbytes(rng, 32)
    m = rbytes(rng, rng.choice((0, 1, 32, 100, 255, 256, 512)))
    tk, t = tweak_for(rng, j)
    if j % 7 == 3:
        # the tweak whose point IS the signer's nonce point for this seed and
        # message (T == R: the two points every instruction adds are equal);
        # the repository's helpers only SELECT the input here - whether it
        # hit is counted below against the R the instruction returns
        try:
            t = bytes(functions.clamp_scalar(functions.H_small(
                functions.H_big(functions.H_big(seed)[32:], m))))
            tk = 'nonce-scalar'
        except Exception:
            pass
    t_eff = int.from_bytes(t, 'little') & MASK
    if t_eff % L == 0:
        return
    X = E.public_key(seed)
    T = E.encode(E.mul(t_eff, E.G))            # pure python
    base = {'kind': 'tuple', 'seed': seed, 'm': m, 't': t, 'tweak_kind': tk}
    pm = isa.push(m) if m else b'\x03\x00'
    # T through the API must be the model's T
    st, exc = run(isa.push(t) + O('DERIVE_POINT'))
    ctx.evaluated()
    if exc is not None or st != [T]:
        ctx.violation('tweak-point-differs', 'DERIVE_POINT(t) is not t*G '
                      '(low 255 bits)', base, T.hex(),
                      repr(exc)[:80] if exc else st[0].hex())
        return
    # ---- make the adapter (PUBLIC)
    st, exc = run(isa.push(seed) + pm + isa.push(T)
                  + O('MAKE_ADAPTER_SIG_PUBLIC'))
    ctx.evaluated()
    if exc is None and len(st) == 2 and T in st:
        ctx.count('tweak_point_equals_nonce_point')
    if exc is not None or len(st) != 2 or len(st[0]) != 32 or len(st[1]) != 32:
        ctx.violation('make-adapter-failed', 'MAKE_ADAPTER_SIG_PUBLIC did not '
                      'produce (R, sa)', base, '2 x 32 bytes',
                      repr(exc)[:80] if exc else [x.hex() for x in st])
        return
    R, sa = st
    nt = tk not in ('clamped',)
    # ---- the registers the instruction documents ("can be used in code with
    # @R, @T, and @sa"): read back, they ARE the adapter and its point
    st, exc = run(isa.push(seed) + pm + isa.push(T)
                  + O('MAKE_ADAPTER_SIG_PUBLIC') + O('POP1') + b'\x02'
                  + O('READ_CACHE') + b'\x01R' + O('READ_CACHE') + b'\x02sa'
                  + O('READ_CACHE') + b'\x01T')
    ctx.evaluated()
    if exc is not None or st != [R, sa, T]:
        ctx.violation('adapter-registers-differ', 'after '
                      'MAKE_ADAPTER_SIG_PUBLIC the registers @R @sa @T are '
                      'not the adapter (R, sa) it returned and its tweak '
                      'point', base, [R.hex(), sa.hex(), T.hex()],
                      repr(exc)[:80] if exc else [x.hex() for x in st])
        return
    # ---- check passes
    st, exc = run(cas_prog(X, T, m, R, sa))
    ctx.evaluated()
    if exc is not None or st != [b'\xff']:
        ctx.violation('adapter-check-rejects-valid', 'CHECK_ADAPTER_SIG does '
                      'not accept the adapter made for (X, T, m)', base, 'ff',
                      repr(exc)[:80] if exc else [x.hex() for x in st])
        return
    # model relation of the check: sa*G == R + H(R+T||X||m)*X
    Rp, Tp, Xp = E.decode(R), E.decode(T), E.decode(X)
    RT = E.encode(E.add(Rp, Tp))
    ca = E.sha512_int(RT, X, m) % L
    if E.encode(E.mul(E.sc(sa) % L, E.G)) != E.encode(
            E.add(Rp, E.mul(ca, Xp))):
        ctx.violation('adapter-relation', 'adapter does not satisfy sa*G == R '
                      '+ H(R+T||X||m)*X', base)
        return
    if nt:
        ctx.mark_nontrivial(dg('ok', seed, m, t))
    # ---- single-bit alterations -> not true
    sa_plus_L = le2(E.sc(sa) + L)
    for name, args in (
            ('sa', (X, T, m, R, flip(sa, j * 7))),
            ('sa-bit255', (X, T, m, R, flip(sa, 255))),
            ('sa-plus-L', (X, T, m, R, sa_plus_L)),
            ('R', (X, T, m, flip(R, j * 11), sa)),
            ('T', (X, flip(T, j * 13), m, R, sa)),
            ('m', (X, T, flip(m, j * 5) if m else b'\x00', R, sa)),
            ('X', (flip(X, j * 3), T, m, R, sa))):
        st, exc = run(cas_prog(*args))
        ctx.evaluated()
        if exc is None and st == [b'\xff']:
            ctx.violation('adapter-check-accepts-altered-' + name,
                          f'CHECK_ADAPTER_SIG accepts with {name} altered by '
                          'one bit', dict(base, altered=name))
        else:
            ctx.mark_nontrivial(dg('alt', name, seed, m, t, j))
    # ---- decrypt
    st, exc = run(isa.push(sa) + isa.push(R) + isa.push(t)
                  + O('DECRYPT_ADAPTER_SIG'))
    ctx.evaluated()
    if exc is not None or len(st) != 2:
        ctx.violation('decrypt-failed', 'DECRYPT_ADAPTER_SIG failed', base,
                      '(RT, s)', repr(exc)[:80] if exc else st)
        return
    RT_got, s = st
    want_s = le((E.sc(sa) + t_eff) % L)
    if RT_got != RT or s != want_s:
        ctx.violation('decrypt-wrong-values', 'decryption is not (R+T, sa+t)',
                      base, RT.hex() + want_s.hex(), RT_got.hex() + s.hex())
        return
    if not E.verify(X, m, RT_got + s):
        ctx.violation('decrypted-signature-invalid', 'decrypted (R+T, sa+t) '
                      'does not verify under the signer key (RFC 8032)', base)
        return
    ctx.count('decrypted_signatures_verified_pure_python')
    # the VM agrees (CHECK_SIG_STACK)
    st2, exc2 = run(isa.push(RT_got + s) + pm + isa.push(X)
                    + O('CHECK_SIG_STACK'))
    if exc2 is not None or st2 != [b'\xff']:
        ctx.violation('decrypted-signature-rejected-by-vm', 'CHECK_SIG_STACK '
                      'rejects the decrypted signature', base)
    # recover t
    rec = (E.sc(s) - E.sc(sa)) % L
    if rec != t_eff % L or E.encode(E.mul(rec, E.G)) != T:
        ctx.violation('tweak-recovery', 's - sa does not recover t / T', base)
    st3, exc3 = run(isa.push(sa) + isa.push(s) + O('SUBTRACT_SCALARS') + b'\x02')
    if exc3 is not None or st3 != [le(rec)]:
        ctx.violation('tweak-recovery-vm', 'SUBTRACT_SCALARS(s, sa) != t',
                      base, le(rec).hex(), repr(exc3)[:60] if exc3
                      else [x.hex() for x in st3])
    # the adapter itself / other scalar: not a signature
    if E.verify(X, m, R + sa):
        ctx.violation('adapter-is-a-signature', '(R, sa) verifies as a '
                      'signature', base)
    t2 = le((t_eff + 1 + rng.randrange(1000)) & MASK)
    st, exc = run(isa.push(sa) + isa.push(R) + isa.push(t2)
                  + O('DECRYPT_ADAPTER_SIG'))
    ctx.evaluated()
    if exc is None and len(st) == 2 and E.verify(X, m, st[0] + st[1]):
        ctx.violation('wrong-scalar-decrypts', 'decryption with another '
                      'scalar yields a valid signature', dict(base, t2=t2))
    else:
        ctx.mark_nontrivial(dg('wrongt', seed, m, t))
    # ---- PRIVATE variant must be consistent with check / decrypt
    st, exc = run(pm + isa.push(t) + isa.push(seed)
                  + O('MAKE_ADAPTER_SIG_PRIVATE'))
    ctx.evaluated()
    if exc is None and len(st) == 3:
        T2, R2, sa2 = st
        ok = T2 == T
        if ok:
            stc, excc = run(cas_prog(X, T2, m, R2, sa2))
            ok = excc is None and stc == [b'\xff']
        if ok:
            std, excd = run(isa.push(sa2) + isa.push(R2) + isa.push(t)
                            + O('DECRYPT_ADAPTER_SIG'))
            ok = excd is None and len(std) == 2 and \
                E.verify(X, m, std[0] + std[1])
        if not ok:
            ctx.violation('adapter-private-inconsistent',
                          'MAKE_ADAPTER_SIG_PRIVATE output does not pass '
                          'CHECK_ADAPTER_SIG / does not decrypt to a valid '
                          'signature', dict(base, op='private'))
    else:
        ctx.violation('make-adapter-private-failed',
                      'MAKE_ADAPTER_SIG_PRIVATE failed', base, '(T, R, sa)',
                      repr(exc)[:80] if exc else st)
    # ---- the same instructions after OTHER adapter work in the same run
    # (one cache): an earlier adapter for another tweak point / signer must
    # not leak into a later check, decryption or creation
    seed_o = rbytes(rng, 32)
    m_o = rbytes(rng, rng.choice((1, 32, 100)))
    t_o = le((t_eff * 7 + 12345 + rng.randrange(1 << 60)) % L or 5)
    st, exc = run(isa.push(t_o) + O('DERIVE_POINT'))
    T_o = st[0] if exc is None and st else T
    prefixes = {
        'make-public': isa.push(seed_o) + isa.push(m_o) + isa.push(T_o)
        + O('MAKE_ADAPTER_SIG_PUBLIC') + O('POP1') + b'\x02',
        'make-private': isa.push(m_o) + isa.push(t_o) + isa.push(seed_o)
        + O('MAKE_ADAPTER_SIG_PRIVATE') + O('POP1') + b'\x03',
        'decrypt': isa.push(sa) + isa.push(R) + isa.push(t_o)
        + O('DECRYPT_ADAPTER_SIG') + O('POP1') + b'\x02',
        'check': cas_prog(E.public_key(seed_o), T_o, m_o, R, sa) + O('POP0'),
        'derive': isa.push(t_o) + O('DERIVE_POINT') + O('POP0')
        + isa.push(seed_o) + O('DERIVE_SCALAR') + O('POP0'),
    }
    mains = {
        'decrypt': (isa.push(sa) + isa.push(R) + isa.push(t)
                    + O('DECRYPT_ADAPTER_SIG'), [RT, want_s]),
        'check': (cas_prog(X, T, m, R, sa), [b'\xff']),
        'make-public': (isa.push(seed) + pm + isa.push(T)
                        + O('MAKE_ADAPTER_SIG_PUBLIC'), [R, sa]),
    }
    names = sorted(prefixes)
    for q in range(2):
        pn = names[(j + q * 3) % len(names)]
        pn2 = names[(j * 5 + q + 1) % len(names)]
        pre = prefixes[pn] + (prefixes[pn2] if q else b'')
        for mn, (mp, want_st) in mains.items():
            st, exc = run(pre + mp)
            ctx.evaluated()
            ctx.tab('same_run', f'{pn}{"+" + pn2 if q else ""} -> {mn}')
            if exc is not None or st != want_st:
                ctx.violation(f'adapter-op-depends-on-earlier-op:{mn}',
                              f'{mn} after {pn}{"+" + pn2 if q else ""} (other '
                              'signer / tweak) in the same run does not give '
                              'what it gives in a run of its own',
                              dict(base, prefix=pre, main=mp),
                              [x.hex() for x in want_st],
                              repr(exc)[:100] if exc
                              else [x.hex() for x in st])
            else:
                ctx.mark_nontrivial(dg('same-run', pn, mn, seed, t))
    if j % 40 == 0:
        ctx.sample({'seed': seed, 'm_len': len(m), 'tweak_kind': tk, 't': t,
                    'R': R, 'sa': sa})


def auth(scripts, cache):
    functions = env.mods()[0]
    try:
        ss = [bytes(s) for s in scripts]
        return functions.run_auth_scripts(ss, dict(cache),
                                          **env.roomy_limits(*ss))
    except BaseException as e:
        return e


def judge_builders(ctx, rng, j):
    # a third of the builder flows run in a process configured with every
    # register export off (functions.flags[1..9] = False): the builders and
    # locks work on the stack, not on the registers
    off = j % 3 == 1
    ctx.tab('builders_registers', 'off' if off else 'default')
    with env.global_flags(env.REGISTERS_OFF if off else {}):
        _judge_builders(ctx, rng, j)


def _judge_builders(ctx, rng, j):
    functions, parsing, tools, _, _ = env.mods()
    t_ = tools
    seed, other = rbytes(rng, 32), rbytes(rng, 32)
    pk = sigmsg.pubkey(seed)
    tk, tw = tweak_for(rng, j * 3)
    t_eff = int.from_bytes(tw, 'little') & MASK
    if t_eff % L == 0:
        return
    tw_c = functions.clamp_scalar(tw)
    T = functions.derive_point_from_scalar(tw_c)
    from ..gen import auth as _auth
    fields = _auth.sigfields(rng, must=(1, 4))
    # the adapter builders use their sigflags argument as the message
    # selector on both sides: lock and witness take the same value
    f = rng.choice((0, 0, 8, 1, 0x10, 0xa0, 0x80))
    allowed = f
    a_hex, f_hex = f'{allowed:02x}', f'{f:02x}'
    base = {'kind': 'builders', 'seed': seed, 't': tw, 'fields': fields,
            'f': f, 'allowed': allowed}

    def expect(name, scripts, want, flds=fields):
        ctx.evaluated()
        got = auth(scripts, flds)
        ctx.tab('builder_case', name)
        if (got is True) != want:
            ctx.violation(('adapter-builder-accepts:' if got is True else
                           'adapter-builder-rejects:') + name,
                          f'{name}: verdict differs from intent',
                          dict(base, name=name,
                               scripts=[bytes(s) for s in scripts]), want,
                          repr(got)[:80])
        else:
            ctx.mark_nontrivial(dg(name, [bytes(s) for s in scripts]))
    s1, s2 = t_.make_adapter_locks_pub(pk, T, a_hex)
    # the 0-byte message: every sigfield that is present is EMPTY
    if j % 6 == 4:
        empty = {f'sigfield{k}': b'' for k in
                 rng.sample(range(1, 9), rng.choice((1, 1, 2, 8)))}
        try:
            w0 = t_.make_adapter_witness(seed, T, empty, f_hex)
            sg0 = t_.decrypt_adapter(w0, tw)
        except BaseException as e:
            ctx.evaluated()
            ctx.violation('adapter-builder-raised:empty-message',
                          'make_adapter_witness / decrypt_adapter raise for '
                          'sigfields that are present and empty (the 0-byte '
                          f'message): {e!r}'[:200], dict(base, fields=empty,
                                                         name='empty-message'))
        else:
            expect('locks_pub:empty-message:adapter-valid', [w0, s1], True,
                   empty)
            ctx.evaluated()
            if len(sg0) != 64 or not E.verify(pk, b'', sg0):
                ctx.violation('decrypt-adapter-invalid', 'decrypt_adapter() '
                              'result is not a valid signature over the '
                              '0-byte message', dict(base, fields=empty,
                                                     name='empty-message'))
    wit = t_.make_adapter_witness(seed, T, fields, f_hex)
    expect('locks_pub:adapter-valid', [wit, s1], True)
    expect('locks_pub:adapter-by-other-signer',
           [t_.make_adapter_witness(other, T, fields, f_hex), s1], False)
    T2 = functions.derive_point_from_scalar(functions.clamp_scalar(
        rbytes(rng, 32)))
    expect('locks_pub:adapter-for-other-T',
           [t_.make_adapter_witness(seed, T2, fields, f_hex), s1], False)
    ck = 'sigfield4' if f != 8 else 'sigfield1'       # a covered field
    f2 = dict(fields, **{ck: fields[ck] + b'.'})
    expect('locks_pub:field-changed', [wit, s1], False, f2)
    try:
        sig = t_.decrypt_adapter(wit, tw)
    except BaseException as e:
        ctx.violation('decrypt-adapter-raised', repr(e)[:100], base)
        return
    sigf = sig + (bytes([f]) if f else b'')
    msg = sigmsg.message(fields, f)
    if len(sig) != 64 or not E.verify(pk, msg, sig):
        ctx.violation('decrypt-adapter-invalid', 'decrypt_adapter() result '
                      'is not a valid signature over the flag-selected '
                      'message', base)
    expect('locks_pub:decrypted-sig-unlocks', [isa.push(sigf), s2], True)
    # recovering the scalar from signature and adapter: the signature in the
    # form the lock takes it (with its flag byte) is either refused or gives
    # the same scalar as the bare 64 bytes - never another one
    ctx.evaluated()
    y0 = le(0)
    try:
        r64 = t_.release_left_amhl_lock(wit, sig, y0)
    except BaseException as e:
        r64 = None
        ctx.violation('release-raised', f'release_left_amhl_lock raised for '
                      f'a 64-byte signature: {e!r}'[:160],
                      dict(base, name='release'))
    if r64 is not None and f:
        try:
            r65 = t_.release_left_amhl_lock(wit, sigf, y0)
        except BaseException:
            ctx.count('flagged_signature_refused_by_release')
        else:
            if r65 != r64:
                ctx.violation('recovered-scalar-differs-for-flagged-signature',
                              'release_left_amhl_lock returns another scalar '
                              'for the signature with its flag byte appended '
                              'than for the bare signature', dict(
                                  base, name='release'), r64.hex(), r65.hex())
    wrong = t_.decrypt_adapter(wit, functions.clamp_scalar(rbytes(rng, 32)))
    expect('locks_pub:wrong-tweak-sig', [isa.push(wrong + (bytes([f]) if f
                                                           else b'')), s2],
           False)
    bw = bytes(wit)
    adapter_as_sig = bw[36:68] + bw[2:34]          # R || sa
    expect('locks_pub:adapter-as-sig', [isa.push(adapter_as_sig), s2], False)
    # prv variant: check, decrypt, verify
    p1, p2, p3 = t_.make_adapter_locks_prv(pk, tw, a_hex)
    expect('locks_prv:adapter-valid', [wit, p1], True)
    if f == 0:
        expect('locks_prv:decrypt-then-verify',
               [wit, p2, O('CONCAT'), p3], True)
        expect('locks_prv:other-signer',
               [t_.make_adapter_witness(other, T, fields, f_hex), p2,
                O('CONCAT'), p3], False)
        # deprecated one-script locks
        lk = t_.make_adapter_lock_pub(pk, T, a_hex)
        expect('lock_pub(deprecated):ok', [isa.push(tw_c) + bytes(wit), lk],
               True)
        expect('lock_pub(deprecated):wrong-tweak',
               [isa.push(functions.clamp_scalar(rbytes(rng, 32)))
                + bytes(wit), lk], False)
        expect('lock_pub(deprecated):other-signer',
               [isa.push(tw_c) + bytes(t_.make_adapter_witness(
                   other, T, fields, f_hex)), lk], False)
        lk2 = t_.make_adapter_lock_prv(pk, tw, a_hex)
        expect('lock_prv(deprecated):ok', [isa.push(tw_c) + bytes(wit), lk2],
               True)
        # the lock is for T: an adapter the signer made for ANOTHER point,
        # presented with that point's own scalar, is not an adapter under T
        tw2 = functions.clamp_scalar(rbytes(rng, 32))
        T2b = functions.derive_point_from_scalar(tw2)
        w2 = bytes(t_.make_adapter_witness(seed, T2b, fields, f_hex))
        # ... nor is one anybody can compute from an ORDINARY signature
        # (Rs, s) by the signer over the same fields and a scalar t' of their
        # own choice: R' = Rs - t'G, sa' = s - t'
        osig = sigmsg.sign(seed, sigmsg.message(fields, 0))
        t3 = E.sc(functions.clamp_scalar(rbytes(rng, 32))) % L
        R3 = E.encode(E.sub(E.decode(osig[:32]), E.mul(t3, E.G)))
        sa3 = le((E.sc(osig[32:]) - t3) % L)
        w3 = isa.push(sa3) + isa.push(R3)
        for nm, lkx in (('lock_pub', lk), ('lock_prv', lk2)):
            expect(f'{nm}(deprecated):adapter-for-other-T-with-its-scalar',
                   [isa.push(tw2) + w2, lkx], False)
            expect(f'{nm}(deprecated):forged-from-plain-signature',
                   [isa.push(le(t3)) + w3, lkx], False)


def run_shard(spec, ctx):
    i, of = spec['shard'], spec['of']
    n = NTUP[ctx.tier] // of
    for j in range(n):
        judge_tuple(ctx, ctx.rng(j), j * of + i)
        judge_builders(ctx, ctx.rng(('b', j)), j * of + i)


def finalize(agg, tier):
    out = []
    if not agg['counters'].get('decrypted_signatures_verified_pure_python'):
        out.append('no decrypted signature reached the pure-Python verifier')
    if len(agg['tables'].get('builder_case', {})) < 8:
        out.append('builder cases not exercised')
    return out


def replay(case, ctx):
    if case.get('kind') == 'zero-tweak':
        return judge_zero_tweak(ctx, ctx.rng('replay'), 0,
                                (case['seed'], case['m']))
    rng = ctx.rng('replay')
    if case.get('kind') == 'tuple':
        # re-run the same tuple through the whole battery
        class R:
            pass
        seed, m, t = case['seed'], case['m'], case['t']
        functions = env.mods()[0]
        ctx.evaluated()
        t_eff = int.from_bytes(t, 'little') & MASK
        X = E.public_key(seed)
        T = E.encode(E.mul(t_eff, E.G))
        pm = isa.push(m) if m else b'\x03\x00'
        if case.get('op') == 'private':
            st, exc = run(pm + isa.push(t) + isa.push(seed)
                          + O('MAKE_ADAPTER_SIG_PRIVATE'))
            ok = exc is None and len(st) == 3
            if ok:
                stc, excc = run(cas_prog(X, st[0], m, st[1], st[2]))
                ok = excc is None and stc == [b'\xff']
            if not ok:
                ctx.violation('adapter-private-inconsistent', 'replay', case)
            return
        st, exc = run(isa.push(seed) + pm + isa.push(T)
                      + O('MAKE_ADAPTER_SIG_PUBLIC'))
        if exc is not None:
            ctx.violation('make-adapter-failed', 'replay', case)
            return
        R_, sa = st
        st, exc = run(cas_prog(X, T, m, R_, sa))
        if exc is not None or st != [b'\xff']:
            ctx.violation('adapter-check-rejects-valid', 'replay', case)
        st, exc = run(isa.push(sa) + isa.push(R_) + isa.push(t)
                      + O('DECRYPT_ADAPTER_SIG'))
        if exc is not None or not E.verify(X, m, st[0] + st[1]):
            ctx.violation('decrypted-signature-invalid', 'replay', case)
    else:
        ctx.evaluated()
        if 'scripts' in case:
            got = auth(case['scripts'], case['fields'])
            ctx.count('replayed')
