"""C11 — the compiler emits exactly the instructions written.

Abstract programs are assembled by the reference assembler (ref/asm.py, written
from docs.md) and rendered to source text under several spelling profiles
(ref/render.py); the real compile_script must either reject the source or
return exactly the reference bytes.
"""
from __future__ import annotations
import hashlib
import re

from .. import env
from ..gen import progs
from ..ref import asm, isa, render

ID = 'C11'
RULE = ('abstract programs over the full instruction set (nesting <= 4, '
        'boundary operands per kind, sugar: variables, macros, comptime, '
        'hoisted IF) x renderings (1 canonical + k wild spelling vectors: '
        'OP_/bare/alias, letter case, {} / END_*, d/x/s/f prefixes, comments '
        'in 3 delimiters, whitespace); plus a fixed battery of hand-written '
        'positional cases. distinct = by source text; non-trivial = >= 1 '
        'block construct or >= 1 non-canonical spelling feature'
        ' [plus the unencodable-source workload (17 classes of instructions the encoding has no room for x 10 block positions: accepting is a violation unless the one fitting reading was assembled), calls of macros an earlier source defined, integers up to 40 bytes spelled in decimal]')
ASSUMPTIONS = [
    'reference assembler transcribes docs.md operand formats (ref/isa.py)',
    'a raised error is always admissible (rejected instead of mis-assembled); '
    'vacuity is guarded by an acceptance floor on canonical spellings',
    'd-prefixed integers are compared by value (a sign-extension byte from '
    'the integer encoder is not an alarm, see C10)',
]
NSH = 16
NPROG = {'quick': 24_000, 'thorough': 1_500_000}
NWILD = {'quick': 3, 'thorough': 6}

BATTERY = [
    # (source, expected hex) — positional cases around block terminators
    ('true if true end_if false', '012b00010100'),
    ('true if { true } false', '012b00010100'),
    ('if ( true ) true end_if false', '012b00010100'),
    ('if ( true ) { true } false', '012b00010100'),
    ('true if true else false end_if dup', '012c0001010001001d'),
    ('true if { true } else { false } dup', '012c0001010001001d'),
    ('true loop pop0 false end_loop dup', '0145000206001d'),
    ('try { true } except { false } dup', '3d0001010001001d'),
    ('try true except false end_except dup', '3d0001010001001d'),
    ('def 0 { true } false', '29000001' '0100'),
    ('def 0 true end_def false', '2900000101' '00'),
    ('def 1 { if true end_if } false', '2901' '0004' '2b000101' '00'),
    ('true if { if { true } false } dup', '012b0005' '2b000101' '00' '1d'),
    ('true if if true end_if false end_if dup', None),
    ('push x01 # c # push x02', '02010202'),
    ('push x01 " c " push x02', '02010202'),
    ("push x01 ' c ' push x02", '02010202'),
    ('push d127 push d128 push d-128 push d-129', '027f' '03020080' '0280' '0302ff7f'),
    ('push s"abc"', '0303616263'),
    ("push s'abc'", '0303616263'),
    ('push s"a b"', '0303612062'),
    ('@= k [ x01 x02 ] @k @#k', '0201' '0202' '09016b02' '0a016b' '0b016b'),
    ('@= k 2', '09016b02'),
    ('!= m [ a ] { push a dup } !m [ x05 ] true', '02051d01'),
    ('push ~ { true false }', '03020100'),
    ('push ~! { push x0102 sha256 }',
     '0320' + hashlib.sha256(b'\x01\x02').hexdigest()),
    ('swap d1 d2 swap x01 x02', '3401023401 02'.replace(' ', '')),
    ('check_multisig x00 d2 d3', '46000203'),
    ('cms x01 d1 d1', '46010101'),
    ('div_float f2 mod_float x3f800000', '1740000000' '193f800000'),
    ('write_cache x6b d2 read_cache x6b rcz x6b', '09016b02' '0a016b' '0b016b'),
    ('push1 d2 x0102 dup', '030201021d'),
    ('op_push1 x0102 dup', '030201021d'),
    ('op_push2 x0102 dup', '04000201021d'),
    ('nop200 d1 nop255 x80', 'c801ff80'),
    ('call d0 call x01', '2a002a01'),
    ('get_value s"timestamp"', '400974696d657374616d70'),
    ('OP_IF { OP_DUP } ELSE { OP_POP0 }', '2c00011d000106'),
    ('OP_IF OP_DUP ELSE OP_POP0 END_IF', '2c00011d000106'),
]


def shards(tier, seed):
    return [{'shard': i, 'of': NSH} for i in range(NSH)]


def dg(s: str) -> bytes:
    return hashlib.blake2b(s.encode(), digest_size=8).digest()


def collapse_ws(nodes, which=None):
    """AST with the runs of spaces collapsed inside exactly the values the
    rendering spelled as s"..." strings (what the tokenizer does to s"a  b")
    — only used to classify the known finding."""
    def fix(x):
        if isinstance(x, bytes):
            if which is not None and x not in which:
                return x
            try:
                return re.sub(r' +', ' ', x.decode()).encode()
            except UnicodeDecodeError:
                return x
        if isinstance(x, list):
            return [fix(y) for y in x]
        return x
    return fix(nodes)


def ws_subset_match(ast, got: bytes) -> bool:
    """does `got` equal the reference encoding with the runs of spaces
    collapsed in SOME of the occurrences of double-space values? (a rendering
    spells each occurrence its own way - as a string, as hex, as an int - and
    only the string spellings go through the tokenizer that collapses)"""
    import copy
    import itertools
    tree = copy.deepcopy(ast)
    occ = []

    def walk(x):
        if isinstance(x, list):
            for i, y in enumerate(x):
                if isinstance(y, bytes):
                    if b'  ' in y:
                        try:
                            y.decode()
                            occ.append((x, i, y))
                        except UnicodeDecodeError:
                            pass
                else:
                    walk(y)
    walk(tree)
    if not occ or len(occ) > 8:
        return False
    for r in range(1, len(occ) + 1):
        for sub in itertools.combinations(range(len(occ)), r):
            for k, (lst, i, y) in enumerate(occ):
                lst[i] = re.sub(rb' +', b' ', y) if k in sub else y
            try:
                if asm.assemble_program(tree) == got:
                    return True
            except asm.AsmError:
                pass
    return False


def only_ws_collapsed(got: bytes, ref: bytes) -> bool:
    """True iff got differs from ref only in value operands whose whitespace
    runs were collapsed to one space (known finding: tokenizer re-joins string
    values with single spaces)."""
    try:
        a = asm.flatten(asm.disassemble(got))
        b = asm.flatten(asm.disassemble(ref))
    except asm.DisasmError:
        return False
    if len(a) != len(b):
        return False
    hit = False
    for (n1, o1), (n2, o2) in zip(a, b):
        if (n1, o1) == (n2, o2):
            continue
        if n1 != n2 or len(o1) != len(o2) or not o1 \
                or not isinstance(o2[0], bytes) or o1[1:] != o2[1:]:
            return False
        try:
            if re.sub(r' +', ' ', o2[0].decode()).encode() != o1[0]:
                return False
        except UnicodeDecodeError:
            return False
        hit = True
    return hit


def upper_strings(nodes):
    def fix(x):
        if isinstance(x, bytes):
            try:
                return x.decode().upper().encode()
            except UnicodeDecodeError:
                return x
        if isinstance(x, list):
            return [fix(y) for y in x]
        return x
    return fix(nodes)


def tolerant_equal(got: bytes, ref: bytes) -> bool:
    """structural equality with integer operands of push/lv1 compared by
    value (sign-extension bytes from the encoder are not an alarm)."""
    try:
        a = asm.flatten(asm.disassemble(got))
        b = asm.flatten(asm.disassemble(ref))
    except asm.DisasmError:
        return False
    if len(a) != len(b):
        return False
    for (n1, o1), (n2, o2) in zip(a, b):
        if (n1, o1) == (n2, o2):
            continue
        pushes = ('OP_PUSH0', 'OP_PUSH1', 'OP_PUSH2')
        same_op = n1 == n2 or (n1 in pushes and n2 in pushes)
        if not same_op or len(o1) != len(o2) or not o1:
            return False
        if not (isinstance(o1[0], bytes) and isinstance(o2[0], bytes)
                and o1[0] and o2[0] and o1[1:] == o2[1:]
                and isa.int_dec(o1[0]) == isa.int_dec(o2[0])
                and len(o1[0]) != len(o2[0])):
            return False
    return True


def judge_source(ctx, src, ref, feats, ast, profile, case_collapsed=None):
    functions, parsing, tools, _, _ = env.mods()
    wsv = {bytes.fromhex(f[9:]) for f in feats if f.startswith('ws-value:')}
    feats = {f for f in feats if not f.startswith('ws-value:')}
    ctx.evaluated()
    try:
        if len(src) % 7 == 0:
            got = tools.Script.from_src(src).bytes
        else:
            got = parsing.compile_script(src)
    except BaseException as e:
        ctx.count(f'rejected.{profile}')
        ctx.tab('reject_reason', type(e).__name__)
        return 'rejected'
    ctx.count(f'accepted.{profile}')
    if got == ref or tolerant_equal(got, ref):
        return 'ok'
    key = 'misassembly'
    collapsed = None
    if ast is None and case_collapsed is not None and got == case_collapsed:
        key = 'string-whitespace-collapsed'
        collapsed = case_collapsed
    if ast is not None:
        try:
            if 'string-multispace' in feats:
                collapsed = asm.assemble_program(collapse_ws(ast, wsv))
            if 'string-multispace' in feats and (
                    only_ws_collapsed(got, ref) or got == collapsed
                    or ws_subset_match(ast, got)):
                collapsed = got
                key = 'string-whitespace-collapsed'
            elif 'upper_s_prefix' in feats and \
                    got == asm.assemble_program(upper_strings(ast)):
                key = 'upper-s-prefix-uppercases-contents'
        except asm.AsmError:
            pass
    if key == 'misassembly' and 'end_if' in feats:
        # dropped-symbol witness: the accepted bytes are the reference bytes
        # with instructions missing
        try:
            a = [x for x in asm.flatten(asm.disassemble(got))]
            b = [x for x in asm.flatten(asm.disassemble(ref))]
            if len(a) < len(b):
                key = 'misassembly-symbols-dropped'
        except asm.DisasmError:
            pass
    ctx.violation(key, 'compile_script accepted the source but the bytes '
                  f'differ from the documented encoding (features {sorted(feats)})',
                  {'kind': 'src', 'src': src if len(src) < 4000 else
                   src[:4000], 'ref': ref if len(ref) < 2000 else ref[:2000],
                   'features': sorted(feats),
                   'collapsed_ref': collapsed if key ==
                   'string-whitespace-collapsed' else None},
                  ref.hex()[:400], got.hex()[:400])
    return 'bad'


def collect_macros(nodes, acc):
    for nd in nodes or []:
        if not isinstance(nd, (list, tuple)) or not nd:
            continue
        if nd[0] == 'macro':
            acc.add((nd[1], len(nd[2])))
            collect_macros(nd[3], acc)
        else:
            for x in nd[1:]:
                if isinstance(x, list):
                    collect_macros(x, acc)


def judge_undefined_macro(ctx, src, name):
    functions, parsing, tools, _, _ = env.mods()
    ctx.evaluated()
    ctx.count('undefined_macro_calls')
    for how in ('compile_script', 'Script.from_src'):
        try:
            got = parsing.compile_script(src) if how == 'compile_script' \
                else tools.Script.from_src(src).bytes
        except BaseException:
            continue
        ctx.violation('accepted-undefined-macro', f'{how} accepted a call of '
                      f'macro {name!r}, which this source does not define (an '
                      'earlier compile in the same process did): the result '
                      'depends on earlier calls', {'kind': 'undef-macro',
                                                   'src': src, 'name': name},
                      'rejected', got.hex()[:200])
        return
    ctx.mark_nontrivial(dg(src))


# ---------------------------------------------------------------- unencodable
U8_OPS = [n for n in isa.NAMES if isa.KIND[n] == 'u8']
LV1_OPS = [n for n in isa.NAMES if isa.KIND[n] == 'lv1' and n != 'OP_PUSH1']
WRAPS = ('top', 'if', 'ifhoist', 'ifend', 'else', 'try', 'except', 'loop',
         'def', 'defend')


def _wrap(how, inner):
    """the instruction inside a clause of each block construct"""
    return {
        'top': inner,
        'if': f'true if {{ {inner} }}',
        'ifhoist': f'if ( true ) {{ {inner} }}',
        'ifend': f'true if {inner} end_if',
        'else': f'true if {{ true }} else {{ {inner} }}',
        'try': f'try {{ {inner} }} except {{ true }}',
        'except': f'try {{ true }} except {{ {inner} }}',
        'loop': f'true loop {{ {inner} }}',
        'def': f'def 0 {{ {inner} }}',
        'defend': f'def 0 {inner} end_def',
    }[how]


def _wrap_ref(how, inner: bytes) -> bytes:
    T = isa.op('TRUE')
    return {
        'top': inner,
        'if': T + isa.IF(inner), 'ifhoist': T + isa.IF(inner),
        'ifend': T + isa.IF(inner),
        'else': T + isa.IF_ELSE(T, inner),
        'try': isa.TRY(inner, T), 'except': isa.TRY(T, inner),
        'loop': T + isa.LOOP(inner),
        'def': isa.DEF(0, inner), 'defend': isa.DEF(0, inner),
    }[how]


def unencodable(rng):
    """-> (class, instruction text, alternative encoding or None). A written
    instruction the documented formats have no encoding for: an operand
    outside the width of its field, a value longer than its size field can
    count, a block longer than its 16-bit length, an instruction cut off by
    the end of the source, a name that is not an instruction. `alternative`
    is the one encoding that would not be a mis-assembly if the compiler
    chose to accept the spelling (a decimal 128..255 or -128..-1 for a
    one-byte field read as that byte)."""
    r = render.Renderer(rng, render.WILD)
    k = rng.choice(('u8-d', 'u8-d', 'u8-d', 'u8-x', 'nop-d', 'multi-d',
                    'multi-x', 'count-d', 'handle', 'lv1-long', 'key-long',
                    'f4-width', 'h32-width', 'cut-off', 'unknown-name',
                    'unterminated', 'stray-terminator', 'push-long',
                    'block-long'))
    wide_x = rng.choice(('x0100', 'x0180', 'xffff', 'x010000', 'x7f00',
                         'xff00ff'))
    if k in ('u8-d', 'nop-d'):
        name = rng.choice(U8_OPS) if k == 'u8-d' else \
            f'NOP{rng.choice(list(isa.NOP_CODES))}'
        code = isa.CODE[name] if k == 'u8-d' else int(name[3:])
        v = rng.choice((128, 128, 129, 130, 200, 254, 255, 256, 257, 300,
                        1000, 32768, 65536, -129, -130, -200, -255, -256,
                        -257, -1000, 2**31, -2**31))
        sp = rng.choice(('d{}', 'd{}', 'D{}', 'd+{}') if v > 0
                        else ('d{}', 'D{}')).format(v)
        alt = bytes([code, v & 255]) if -128 <= v <= 255 else None
        return k, f'{r.name(name) if k == "u8-d" else r.case(name)} {sp}', alt
    if k == 'u8-x':
        return k, f'{r.name(rng.choice(U8_OPS))} {wide_x}', None
    if k in ('multi-d', 'multi-x'):
        name = rng.choice(('OP_SWAP', 'OP_CHECK_MULTISIG',
                           'OP_CHECK_MULTISIG_VERIFY'))
        n = 2 if name == 'OP_SWAP' else 3
        ops = [f'd{rng.randrange(0, 4)}' for _ in range(n)]
        ops[rng.randrange(n)] = wide_x if k == 'multi-x' else \
            f'd{rng.choice((256, 257, 300, 1000, 65536))}'
        return k, f'{r.name(name)} ' + ' '.join(ops), None
    if k == 'count-d':
        c = rng.choice(('d256', 'd257', 'd1000', 'x0100', 'xffff'))
        return k, rng.choice((f'{r.name("OP_WRITE_CACHE")} x6b {c}',
                              f'@= k {c[1:] if c[0] == "d" else c}')), None
    if k == 'handle':
        h = rng.choice(('d256', 'd300', 'x0100', '256', '1000', 'xffff'))
        return k, f'{r.case("def")} {h} {{ true }}', None
    if k == 'lv1-long':
        v = 'x' + 'ab' * rng.choice((256, 257, 300, 1000))
        nm = rng.choice(LV1_OPS + ['OP_PUSH1'])
        return k, f'{r.name(nm)} {v}', None
    if k == 'key-long':
        v = 'x' + '6b' * rng.choice((256, 257, 400))
        return k, f'{r.name("OP_WRITE_CACHE")} {v} d1', None
    if k == 'f4-width':
        v = 'x' + '3f' * rng.choice((1, 2, 3, 5, 8))
        return k, f'{r.name(rng.choice(("OP_DIV_FLOAT", "OP_MOD_FLOAT")))} {v}', None
    if k == 'h32-width':
        v = 'x' + 'c4' * rng.choice((1, 20, 31, 33, 64))
        return k, f'{r.name("OP_MERKLEVAL")} {v}', None
    if k == 'push-long':
        v = 'x' + '5a' * rng.choice((65536, 65537, 70000))
        return k, f'{r.name(rng.choice(("OP_PUSH", "OP_PUSH2")))} {v}', None
    if k == 'block-long':
        # the body is one byte, or a few, longer than a 16-bit length counts
        n = 65536 - 3 + rng.choice((0, 0, 1, 7))
        return k, f'push x{"5a" * n}', None
    if k == 'cut-off':
        if rng.random() < 0.4:
            # an instruction with several operands, the last ones missing
            name = rng.choice(('OP_SWAP', 'OP_CHECK_MULTISIG',
                               'OP_CHECK_MULTISIG_VERIFY', 'OP_WRITE_CACHE'))
            n = {'OP_SWAP': 2, 'OP_WRITE_CACHE': 2}.get(name, 3)
            ops = ['x6b' if name == 'OP_WRITE_CACHE' else
                   f'd{rng.randrange(0, 4)}' for _ in range(rng.randrange(n))]
            return k, ' '.join([r.name(name)] + ops), None
        name = rng.choice(U8_OPS + LV1_OPS + ['OP_PUSH', 'OP_DIV_FLOAT',
                                              'OP_MERKLEVAL', 'OP_CALL'])
        return k, r.name(name), None
    if k == 'unknown-name':
        return k, rng.choice(('frobnicate', 'OP_FROB', 'op_dupp', 'pushh x01',
                              'nop256 d1', 'nop91 d1', 'OP_NOP300 d1',
                              'veriffy', 'end', 'OP_', 'x01', 'd5')), None
    if k == 'unterminated':
        return k, rng.choice(('true if { true', 'true if true',
                              'def 0 { true', 'def 0 true',
                              'true loop { true', 'true loop true',
                              'try { true } except { false',
                              'try { true', 'true if { true } else { false',
                              'true if true else false',
                              '!= m [ a ] { push a', '@= k [ x01',
                              'push ~ { true', 'if ( true { true }')), None
    return k, rng.choice(('}', 'end_if', 'end_def', 'end_loop', 'end_except',
                          'else { true }', 'except { true }', ')', ']',
                          'true if { true } }')), None


def judge_unencodable(ctx, rng):
    k, inner, alt = unencodable(rng)
    how = 'top' if k in ('unterminated', 'stray-terminator', 'cut-off') \
        else rng.choice(WRAPS)
    if k == 'cut-off' and rng.random() < 0.3:
        inner = 'push ~ { ' + inner + ' }'    # cut off by the end of a comptime block
    if k == 'block-long' and how == 'top':
        how = 'if'
    pre = rng.choice(('', 'true', 'push x0102 dup', 'false not'))
    post = '' if k in ('cut-off', 'unterminated') else \
        rng.choice(('', 'false', 'dup pop0', 'push d5'))
    src = ' '.join(x for x in (pre, _wrap(how, inner), post) if x)
    return judge_unenc_source(ctx, src, k, how, pre, post, alt)


def judge_unenc_source(ctx, src, k, how, pre, post, alt):
    functions, parsing, tools, _, _ = env.mods()
    ctx.evaluated()
    ctx.count('unencodable_tried')
    ctx.tab('unencodable_class', k)
    ctx.tab('unencodable_wrap', how)
    try:
        if len(src) % 5 == 0:
            got = tools.Script.from_src(src).bytes
        else:
            got = parsing.compile_script(src)
    except BaseException as e:
        ctx.tab('unencodable_reject_reason', type(e).__name__)
        ctx.mark_nontrivial(dg(src[:300] + str(len(src))))
        return
    if alt is not None:
        # the spelling has one reading that fits the field: accepting it is
        # admissible exactly when that reading is what was assembled
        want = parsing_ref(pre) + _wrap_ref(how, alt) + parsing_ref(post)
        if got == want:
            ctx.count('unencodable_accepted_with_fitting_reading')
            return
    import zlib
    ctx.violation(f'accepted-unencodable:{k}',
                  f'the compiler accepted a source holding an instruction the '
                  f'documented encoding has no room for ({k}, inside {how}): '
                  f'it assembled {len(got)} bytes instead of raising',
                  {'kind': 'unenc', 'src_z': zlib.compress(src.encode()),
                   'class': k, 'wrap': how, 'pre': pre, 'post': post,
                   'alt': alt},
                  'rejected', got.hex()[:200])


_FIXED = {'': '', 'true': '01', 'push x0102 dup': '030201021d',
          'false not': '002e', 'false': '00', 'dup pop0': '1d06',
          'push d5': '0205'}


def parsing_ref(txt: str) -> bytes:
    return bytes.fromhex(_FIXED[txt])


def run_shard(spec, ctx):
    i, of = spec['shard'], spec['of']
    tier = ctx.tier
    # fixed battery (every shard runs its residue)
    for j, (src, want) in enumerate(BATTERY):
        if j % of != i:
            continue
        if want is None:
            continue
        ref = bytes.fromhex(want)
        r = judge_source(ctx, src, ref, {'battery'}, None, 'battery')
        ctx.tab('battery', r)
        ctx.mark_nontrivial(dg(src))
    n = NPROG[tier] // of
    earlier_macros = []         # (name, number of arguments), earlier programs
    for j in range(n):
        rng = ctx.rng(j)
        depth = rng.choice((0, 1, 2, 3, 4, 4))
        ast = progs.gen_program(rng, depth=depth, maxn=rng.choice((2, 4, 7)),
                                sugar=rng.random() < 0.7)
        try:
            ref = asm.assemble_program(ast)
        except asm.AsmError:
            ctx.count('skipped.block_too_large')
            continue
        st = progs.features_of(ast)
        ctx.tab('nesting_depth', st['maxdepth'])
        renders = [('canon', render.CANON)] + \
            [('wild', render.WILD)] * NWILD[tier]
        seen = set()
        for pname, prof in renders:
            src, feats = render.render(ast, rng, prof)
            if src in seen:
                continue
            seen.add(src)
            res = judge_source(ctx, src, ref, feats, ast, pname)
            feats = {f for f in feats if not f.startswith('ws-value:')}
            for f in feats:
                ctx.tab('feature.' + res, f)
            noncanon = feats - {'hoist', 'push_size_symbol',
                                'push_no_size_symbol', 'setvar', 'setvarn',
                                'loadvar', 'sizevar', 'macro', 'comptime',
                                'dbyte'}
            if res == 'ok' and (st['blocks'] >= 1 or noncanon):
                ctx.mark_nontrivial(dg(src))
            if j % 500 == 0 and pname == 'wild' and res == 'ok' and len(src) < 600:
                ctx.sample({'src': src, 'bytes': ref, 'features': sorted(feats)})
        # a call of a macro this source does not define (an EARLIER source of
        # the same process defined it) cannot be encoded: it must be rejected
        mine = set()
        collect_macros(ast, mine)
        foreign = [m for m in earlier_macros if m[0] not in
                   {x[0] for x in mine}]
        if foreign and j % 7 == 0:
            name, nargs = foreign[rng.randrange(len(foreign))]
            src2 = f'true !{name} [ ' + 'x01 ' * nargs + '] false'
            judge_undefined_macro(ctx, src2, name)
        if j % 3 == 0:
            judge_unencodable(ctx, rng)
        if j % 4 == 1:
            # two SOURCES of one process define a macro of the same name with
            # another body and call it with the same arguments: each source
            # assembles to its own definition
            import copy as _copy
            m1 = progs.gen_macro(rng)
            progs.DEFINED.clear()
            m2 = _copy.deepcopy(m1)
            extra = progs.plain_simple(rng)
            if rng.random() < 0.5:
                m2[3].append(extra)
            else:
                m2[3].insert(0, extra)
            for mm in (m1, m2, m1):
                a2 = [['op', 'OP_TRUE'], mm]
                try:
                    ref2 = asm.assemble_program(a2)
                except asm.AsmError:
                    break
                src2, feats2 = render.render(a2, rng, render.CANON)
                ctx.count('same_macro_name_in_later_source')
                judge_source(ctx, src2, ref2, feats2, a2, 'canon')
        for m in mine:
            if m not in earlier_macros:
                earlier_macros.append(m)
        del earlier_macros[:-40]


def finalize(agg, tier):
    out = []
    c = agg['counters']
    acc, rej = c.get('accepted.canon', 0), c.get('rejected.canon', 0)
    if acc + rej == 0 or acc / (acc + rej) < 0.5:
        out.append(f'canonical-spelling acceptance {acc}/{acc + rej} < 50%')
    accw, rejw = c.get('accepted.wild', 0), c.get('rejected.wild', 0)
    if accw + rejw == 0 or accw / (accw + rejw) < 0.3:
        out.append(f'wild-spelling acceptance {accw}/{accw + rejw} < 30%')
    if c.get('unencodable_tried', 0) < 1000:
        out.append('fewer than 1000 unencodable sources were tried')
    if len(agg['tables'].get('unencodable_class', {})) < 17:
        out.append('not every class of unencodable source was tried')
    if not c.get('undefined_macro_calls'):
        out.append('no call of a macro defined by an earlier source was tried')
    b = agg['tables'].get('battery', {})
    if b.get('rejected', 0) > len(BATTERY) // 2:
        out.append('more than half of the fixed battery rejected')
    return out


def replay(case, ctx):
    if case.get('kind') == 'undef-macro':
        # the earlier definition is part of the witness: define, then call
        parsing = env.mods()[1]
        try:
            parsing.compile_script(f'!= {case["name"]} [ a b c ] {{ true }}')
            parsing.compile_script(f'!= {case["name"]} [ ] {{ true }}')
        except BaseException:
            pass
        return judge_undefined_macro(ctx, case['src'], case['name'])
    if case.get('kind') == 'unenc':
        import zlib
        return judge_unenc_source(ctx, zlib.decompress(case['src_z']).decode(),
                                  case['class'], case['wrap'], case['pre'],
                                  case['post'], case['alt'])
    judge_source(ctx, case['src'], case['ref'], set(case.get('features', [])),
                 None, 'replay', case.get('collapsed_ref'))
