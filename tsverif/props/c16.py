"""C16 — time constraints accept exactly their documented window.

The real CHECK_TIMESTAMP / CHECK_EPOCH (+_VERIFY) instructions and the three
timestamp lock builders are run with the verifier clock pinned; the oracle is
the window formula of the statement evaluated on plain integers.
"""
from __future__ import annotations
import hashlib

from .. import env
from ..ref import isa

ID = 'C16'
BUILDER_DEFAULTS = True     # tools.* goes through tsverif/omit.py
RULE = ('grid: constraint c in edge set x unsigned encodings of 1..9 bytes x '
        'threshold in {-1,0,1,2,60,2^31} x now around (c - thr) x t within +-2 '
        'of each boundary {c, now+thr}; plus random 63-bit quadruples and the '
        'three lock builders (+op_verify) at their boundaries. distinct = by '
        '(kind, encoding, t, now, thr); non-trivial = t within 2 of a boundary'
        ' [plus empty and inverted between-windows (widths 0, -1, -2, -5, -1000), locks under a globally configured threshold, builders with op_verify left out, 17 placement contexts]')
ASSUMPTIONS = [
    'verifier clock pinned (time.time replaced before import, identity-checked)',
    'epoch_threshold >= 0 (negative is documented as malformed)',
    'timestamps and constraints are non-negative integers',
]
NSH = 8
NRANDOM = {'quick': 24_000, 'thorough': 3_000_000}


def shards(tier, seed):
    return [{'shard': i, 'of': NSH} for i in range(NSH)]


def _push(b: bytes) -> bytes:
    return b'\x03' + bytes([len(b)]) + b


def encodings(c: int):
    """unsigned big-endian encodings of c: minimal, with leading zeros, padded
    to 9 bytes — 1..9 bytes long."""
    m = c.to_bytes(max(1, (c.bit_length() + 7) // 8), 'big')
    out = [m]
    if len(m) < 9:
        out.append(b'\x00' + m)
    if len(m) < 8:
        out.append(b'\x00' * (9 - len(m)) + m)
    if len(m) + 3 <= 9:
        out.append(b'\x00' * 3 + m)
    return out


CS = [0, 1, 2, 127, 128, 255, 256, 65535, 2**31 - 1, 2**31, 2**32 - 1, 2**32,
      env.NOW0, 2**63 - 1, 2**63, 2**64 - 1]
THRS = [-1, 0, 1, 2, 60, 2**31]


def ts_expected(t, now, c, thr) -> bool:
    return t >= c and (thr <= 0 or t - now < thr)


def epoch_expected(now, c, thr) -> bool:
    return c - now < thr


def gen_grid():
    """yield case dicts of the exhaustive boundary grid."""
    for c in CS:
        for enc in encodings(c):
            for thr in THRS:
                base = max(0, c - thr)
                nows = {max(0, base + d) for d in range(-2, 3)}
                nows |= {c + 1000, max(0, c - 1000), c}
                for now in sorted(nows):
                    ts = {c + d for d in range(-2, 3)}
                    ts |= {now + thr + d for d in range(-2, 3)}
                    for t in sorted(x for x in ts if x >= 0):
                        yield {'kind': 'ts', 'enc': enc, 't': t, 'now': now,
                               'thr': thr}
    for c in CS:
        for enc in encodings(c):
            for thr in (0, 1, 2, 60, 2**31):
                for d in range(-3, 4):
                    now = c - thr + d
                    if now >= 0:
                        yield {'kind': 'epoch', 'enc': enc, 'now': now,
                               'thr': thr}
                yield {'kind': 'epoch', 'enc': enc, 'now': c + 10**6,
                       'thr': thr}
    # builders (default thresholds: 60)
    for ts in (0, 1, 2, 127, 128, 255, 256, 32767, 32768, 2**31 - 1, 2**31,
               env.NOW0, 2**32, 2**63 - 1, 2**63):
        for d in range(-2, 3):
            t = ts + d
            if t < 0:
                continue
            for now in (t, t - 59, t - 60, t - 61, t + 1000, t - 10**6):
                if now < 0:
                    continue
                for verify in (False, True, None):
                    yield {'kind': 'after', 'ts': ts, 't': t, 'now': now,
                           'verify': verify}
                    yield {'kind': 'before', 'ts': ts, 't': t, 'now': now,
                           'verify': verify}
        # widths <= 0: the window [begin, end) is empty (begin == end) or
        # inverted (begin > end): no timestamp is inside it
        for width in (1, 2, 5, 1000, 0, -1, -2, -5, -1000):
            begin, end = ts, ts + width
            if end < 0:
                continue
            tt = {begin + d for d in range(-2, 3)} | \
                {end + d for d in range(-2, 3)} | {(begin + end) // 2}
            if begin == 0:
                tt |= {end + 100, end + 1000}       # far beyond the window
            for t in sorted(x for x in tt if x >= 0):
                for now in (t, t - 59, t - 60, t + 1000):
                    if now < 0:
                        continue
                    for verify in (False, True, None):
                        yield {'kind': 'between', 'begin': begin, 'end': end,
                               't': t, 'now': now, 'verify': verify}


def gen_random(rng, n):
    for _ in range(n):
        bits = rng.choice((8, 16, 31, 32, 40, 62, 63))
        c = rng.getrandbits(bits)
        thr = rng.choice(THRS + [rng.getrandbits(rng.choice((4, 16, 31, 62)))])
        rel = rng.random()
        if rel < 0.4:
            t = max(0, c + rng.randrange(-3, 4))
        else:
            t = rng.getrandbits(bits)
        rel = rng.random()
        if rel < 0.5:
            now = max(0, t - thr + rng.randrange(-3, 4))
        else:
            now = rng.getrandbits(bits)
        enc = rng.choice(encodings(c))
        if rng.random() < 0.7:
            yield {'kind': 'ts', 'enc': enc, 't': t, 'now': now, 'thr': thr}
        else:
            thr = abs(thr)
            now = max(0, c - thr + rng.randrange(-3, 4)) \
                if rng.random() < 0.6 else now
            yield {'kind': 'epoch', 'enc': enc, 'now': now, 'thr': thr}


OPC = {}


def _o(name):
    if not OPC:
        for c, (n, _) in env.mods()[0].opcodes.items():
            OPC[n] = c
    return OPC[name]


class GlobalFlags:
    """`functions.flags[name] = value` — the way docs.md configures the slack
    for a whole process — for the duration of the block"""

    def __init__(self, vals) -> None:
        self.vals = dict(vals or {})

    def __enter__(self):
        fl = env.mods()[0].flags
        self.saved = {k: fl[k] for k in self.vals if k in fl}
        self.added = [k for k in self.vals if k not in fl]
        fl.update(self.vals)
        return self

    def __exit__(self, *a):
        fl = env.mods()[0].flags
        fl.update(self.saved)
        for k in self.added:
            fl.pop(k, None)
        return False


def prime(flags, cache):
    """an earlier run of the same process under ANOTHER global configuration
    (a later run must not remember it)"""
    functions = env.mods()[0]
    other = {k: v + 41 for k, v in (flags or {}).items()}
    with GlobalFlags(other):
        try:
            functions.run_script(b'\x01', dict(cache))
            functions.run_auth_scripts([b'\x01'], dict(cache))
        except BaseException:
            pass


def _run(prog, cache, flags=None, cfg='arg'):
    functions = env.mods()[0]
    try:
        if cfg == 'global':
            prime(flags, cache)
            with GlobalFlags(flags):
                # no additional_flags argument at all
                _, stack, _ = functions.run_script(prog, cache)
        else:
            _, stack, _ = functions.run_script(prog, cache,
                                               additional_flags=flags or {})
        return list(stack.deque), None
    except BaseException as e:
        return None, e


CONTEXTS = ((), (), ('CALL',), ('AFTERCALL',), ('IF',), ('ELSE',), ('LOOP',),
            ('EVAL',), ('EXCEPT',), ('CALL', 'CALL'), ('CALL', 'IF'),
            ('LOOP', 'CALL'), ('EVAL', 'CALL'), ('AFTERCALL', 'CALL'),
            ('CALL', 'AFTERCALL'), ('MERKLEVAL',), ('TAPROOT',))


def in_context(word, prog: bytes) -> bytes:
    """the time check placed inside control-flow (stack-neutral wrappers that
    let errors through): the slack the verifier configured applies there too"""
    from . import c09
    for c in reversed(word):
        if c == 'AFTERCALL':
            # a function was defined and called earlier on the same tape
            prog = isa_DEF_CALL() + prog
        else:
            prog = c09.place((c,), prog)
    return prog


def isa_DEF_CALL() -> bytes:
    from ..ref import isa
    return isa.DEF(7, isa.op('TRUE') + isa.op('POP0')) + isa.CALL(7)


def _judge_pair(ctx, case, plain_prog, verify_prog, cache, flags, want, key):
    """plain form leaves exactly want; _VERIFY raises iff not want."""
    cfg = case.get('cfg', 'arg')
    word = tuple(case.get('context', ()))
    if word:
        plain_prog = in_context(word, plain_prog)
        verify_prog = in_context(word, verify_prog)
        ctx.tab('context', '/'.join(word))
    st, exc = _run(plain_prog, cache, flags, cfg)
    if exc is not None or st != [b'\xff' if want else b'\x00']:
        ctx.violation(key + ('-accepts' if not want else '-rejects'),
                      f'{case["kind"]} plain form', case,
                      'ff' if want else '00',
                      repr(exc)[:120] if exc else [x.hex() for x in st])
    st, exc = _run(verify_prog, cache, flags, cfg)
    if want:
        if exc is not None or st != []:
            ctx.violation(key + '-verify-rejects', f'{case["kind"]} _VERIFY '
                          'form raised / left items although the window holds',
                          case, 'no error, empty stack',
                          repr(exc)[:120] if exc else [x.hex() for x in st])
    elif exc is None:
        ctx.violation(key + '-verify-accepts', f'{case["kind"]} _VERIFY form '
                      'did not raise outside the window', case, 'error',
                      [x.hex() for x in st])


def judge(case, ctx):
    functions, parsing, tools, _, _ = env.mods()
    ctx.evaluated()
    k = case['kind']
    ctx.tab('kind', k)
    env.Clock.now = case['now']
    nt = False
    if k == 'ts':
        c = int.from_bytes(case['enc'], 'big')
        t, now, thr = case['t'], case['now'], case['thr']
        want = ts_expected(t, now, c, thr)
        _judge_pair(ctx, case,
                    _push(case['enc']) + bytes([_o('OP_CHECK_TIMESTAMP')]),
                    _push(case['enc']) + bytes([_o('OP_CHECK_TIMESTAMP_VERIFY')]),
                    {'timestamp': t}, {'ts_threshold': thr}, want,
                    'check-timestamp')
        nt = abs(t - c) <= 2 or abs(t - (now + thr)) <= 2
        ctx.tab('ts_outcome', want)
    elif k == 'epoch':
        c = int.from_bytes(case['enc'], 'big')
        now, thr = case['now'], case['thr']
        want = epoch_expected(now, c, thr)
        _judge_pair(ctx, case,
                    _push(case['enc']) + bytes([_o('OP_CHECK_EPOCH')]),
                    _push(case['enc']) + bytes([_o('OP_CHECK_EPOCH_VERIFY')]),
                    {}, {'epoch_threshold': thr}, want, 'check-epoch')
        nt = abs((c - now) - thr) <= 3
        ctx.tab('epoch_outcome', want)
    else:
        t, now = case['t'], case['now']
        # locks under the default slack, or under one configured globally
        lthr = case.get('lock_thr', 60)
        lflags = {'ts_threshold': lthr} if 'lock_thr' in case else None
        cfg = 'global' if lflags else 'arg'
        in_slack = lthr <= 0 or t - now < lthr
        # verify None: the argument is left out (the lock as a caller who
        # follows the README gets it: result left on the stack)
        va = () if case['verify'] is None else (case['verify'],)
        if k == 'after':
            lock = tools.make_timestamp_after_lock(case['ts'], *va)
            want = t >= case['ts'] and in_slack
            nt = abs(t - case['ts']) <= 2 or abs(t - now - 60) <= 1
        elif k == 'before':
            lock = tools.make_timestamp_before_lock(case['ts'], *va)
            want = t < case['ts']
            nt = abs(t - case['ts']) <= 2 or abs(t - now - 60) <= 1
        else:
            lock = tools.make_timestamp_between_lock(
                case['begin'], case['end'], *va)
            want = case['begin'] <= t < case['end'] and in_slack
            nt = True
        st, exc = _run(bytes(lock), {'timestamp': t}, lflags, cfg)
        if case['verify']:
            got = exc is None and st == []
            malformed = exc is None and st != []
        else:
            got = exc is None and st == [b'\xff']
            malformed = exc is None and st not in ([b'\xff'], [b'\x00'])
            if k == 'between' and exc is not None and not want:
                malformed = False
            elif exc is not None and k != 'between':
                malformed = True
        ctx.tab(k + '_outcome', got)
        if malformed:
            ctx.violation(f'{k}-lock-malformed-result', f'{k} lock neither '
                          'accepted nor cleanly rejected', case, want,
                          repr(exc)[:120] if exc else [x.hex() for x in st])
        elif got != want:
            key = f'{k}-lock-' + ('accepts' if got else 'rejects')
            if k == 'before' and got and t >= case['ts'] and not in_slack:
                key = 'before-lock-accepts-beyond-slack'
            ctx.violation(key, f'{k} lock verdict differs from its window',
                          case, want, got)
        # cross-check through the authorization entry point
        if not case['verify']:
            if lflags:
                prime(lflags, {'timestamp': t})
            with GlobalFlags(lflags):
                auth = functions.run_auth_scripts([lock], {'timestamp': t})
            if auth != got:
                ctx.violation(f'{k}-lock-auth-differs', 'run_auth_scripts '
                              'disagrees with run_script on the same lock',
                              case, got, auth)
    if nt:
        ctx.mark_nontrivial(hashlib.blake2b(
            repr(sorted(case.items())).encode(), digest_size=8).digest())
    env.Clock.now = env.NOW0


def judge_spellings(ctx):
    """every documented spelling of the four instructions (full name, bare
    name, short alias, OP_ + alias, lower case) assembles to that
    instruction: a source written with any of them has the semantics judged
    below"""
    parsing = env.mods()[1]
    for name in ('OP_CHECK_TIMESTAMP', 'OP_CHECK_TIMESTAMP_VERIFY',
                 'OP_CHECK_EPOCH', 'OP_CHECK_EPOCH_VERIFY'):
        sp = [name, name[3:]]
        for al in isa.ALIASES.get(name, []):
            sp += [al, 'OP_' + al]
        for w in sp + [x.lower() for x in sp]:
            ctx.evaluated()
            ctx.count('spellings_assembled')
            try:
                got = parsing.compile_script(f'push x05 {w}')
            except BaseException as e:
                got = repr(e)[:80]
            want = b'\x02\x05' + bytes([isa.CODE[name]])
            if got != want:
                ctx.violation('spelling-assembles-to-other-instruction',
                              f'`{w}` does not assemble to {name}',
                              {'kind': 'spelling', 'word': w, 'name': name},
                              want.hex(), got.hex() if isinstance(got, bytes)
                              else got)


def run_shard(spec, ctx):
    i, of = spec['shard'], spec['of']
    n = 0
    if i == 0:
        judge_spellings(ctx)
    for j, case in enumerate(gen_grid()):
        if j % of != i:
            continue
        judge(case, ctx)
        # the same case with the slack configured through functions.flags
        if case['kind'] in ('ts', 'epoch'):
            judge(dict(case, cfg='global'), ctx)
            # ... and with the instruction inside control flow
            judge(dict(case, context=list(CONTEXTS[n % len(CONTEXTS)]),
                       cfg=('arg', 'global')[(n // len(CONTEXTS)) % 2]), ctx)
        else:
            judge(dict(case, lock_thr=(10, 0, 300, 61)[n % 4]), ctx)
        if n % 997 == 0:
            ctx.sample(case)
        n += 1
    ctx.exhaustive('boundary grid (see rule)')
    rng = ctx.rng('random')
    for r, case in enumerate(gen_random(rng, NRANDOM[ctx.tier] // of)):
        judge(case, ctx)
        judge(dict(case, cfg='global'), ctx)
        judge(dict(case, context=list(CONTEXTS[r % len(CONTEXTS)])), ctx)
    ctx.count('clock_reads', env.Clock.calls)


def finalize(agg, tier):
    out = []
    t = agg['tables']
    for name in ('ts_outcome', 'epoch_outcome', 'after_outcome',
                 'before_outcome', 'between_outcome'):
        d = t.get(name, {})
        if not d.get('True') or not d.get('False'):
            out.append(f'{name}: both outcomes were not observed ({d})')
    if agg['counters'].get('clock_reads', 0) == 0:
        out.append('the pinned clock was never read')
    return out


def replay(case, ctx):
    if case.get('kind') == 'spelling':
        return judge_spellings(ctx)
    judge(case, ctx)
