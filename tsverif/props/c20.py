"""C20 — unassigned opcodes are soft-fork-safe no-ops.

(a) every unassigned code x count byte x stack depth on the real VM: signed
    count, exactly `count` items removed, nothing else changes; NOPn spelling
    compiles / decompiles / recompiles.
(b) two-process differential: the same script bytes authorised on a VM with
    add_soft_fork(code, ...) applied (fresh subprocess) and on the plain VM
    (this process): authorises(upgraded) => authorises(plain); name / alias /
    NOPn spellings compile to identical bytes.
"""
from __future__ import annotations
import hashlib
import os
import subprocess
import sys
import tempfile

from .. import env, jsonx
from ..ref import isa

ID = 'C20'
RULE = ('(a) codes 92..255 x count bytes (quick: {0,1,2,3,126,127,128,129,200,'
        '254,255}, thorough: all 256) x depths {0,1,2,3,127,128,129}, at top '
        'level and inside IF / LOOP / DEF+CALL / EVAL bodies; NOPn compile/'
        'decompile/recompile for every code x count byte. (b) fork-op family '
        '(all-equal, even total length, first non-zero, always-raise, '
        'never-raise) installed at free codes (quick: 6 codes, thorough: all) '
        'x generated scripts using the forked code outside TRY, run on both '
        'VMs. distinct = by (code, count, depth, context) resp. script bytes; '
        'non-trivial = count >= 1, or a script whose fork predicate fails'
        " [plus 15 name stems and 10 alias stems, the fork's name and both aliases in ten block positions, every spelling of the count byte, other codes undisturbed, the fork installed before or after the old table was used]")
ASSUMPTIONS = [
    'fork ops conform to the NOP contract (signed count, error if negative, '
    'remove exactly count items, may additionally raise)',
    'the upgraded VM is a fresh subprocess; registries are process-global',
]
NSH = 16
DEPTHS = (0, 1, 2, 3, 127, 128, 129)
QCOUNTS = (0, 1, 2, 3, 126, 127, 128, 129, 200, 254, 255)
PREDS = ('all_equal', 'even_len', 'first_nonzero', 'always', 'never')


def shards(tier, seed):
    return [{'shard': i, 'of': NSH} for i in range(NSH)]


def dg(x) -> bytes:
    return hashlib.blake2b(repr(x).encode(), digest_size=8).digest()


# ------------------------------------------------------------------ part (a)

def ctx_wrap(kind: str, body: bytes) -> bytes:
    """place `body` (stack-neutral w.r.t. the wrapper) in a nesting context"""
    if kind == 'top':
        return body
    if kind == 'if':
        return isa.op('TRUE') + isa.IF(body)
    if kind == 'else':
        return isa.op('FALSE') + isa.IF_ELSE(isa.op('TRUE'), body)
    if kind == 'def':
        return isa.DEF(7, body) + isa.CALL(7)
    if kind == 'eval':
        return isa.push(body) + isa.op('EVAL')
    if kind == 'loop':
        # run the body exactly once: TRUE LOOP { POP0 body FALSE } POP0
        return isa.op('TRUE') + isa.LOOP(
            isa.op('POP0') + body + isa.op('FALSE')) + isa.op('POP0')
    raise ValueError(kind)


def judge_nop(ctx, code, cc, depth, kind):
    functions = env.mods()[0]
    items = [bytes([(i * 7 + 1) & 0xff, i & 0xff]) for i in range(depth)]
    # item LENGTHS vary too (empty, one byte, long): a count is a number of
    # items, whatever they hold
    shape = (code + cc + depth) % 4
    if shape == 1:
        items = [b'' for _ in items]
    elif shape == 2:
        items = [x[:(i + code) % 3] for i, x in enumerate(items)]
    elif shape == 3:
        items = [x * (1 + 5 * (i % 2)) for i, x in enumerate(items)]
    pushes = b''.join(isa.push1(x) for x in items)
    marker = isa.push1(b'\xee\xee')
    body = bytes([code, cc]) + marker
    if kind == 'eval' and len(body) > 0:
        prog = pushes + ctx_wrap(kind, body)
    else:
        prog = pushes + ctx_wrap(kind, body)
    count = cc - 256 if cc >= 128 else cc
    want_err = count < 0 or count > depth
    case = {'kind': 'nop', 'code': code, 'cc': cc, 'depth': depth,
            'ctx': kind}
    ctx.evaluated()
    cache0 = {'sigfield1': b'abc', b'k': [b'v'], b'P': [b'keep', b'me'],
              b'E': [b'e'], b'x': b'raw'}
    try:
        tape, stack, cache = functions.run_script(prog, dict(cache0))
        exc = None
    except BaseException as e:
        exc = e
    if want_err:
        if exc is None:
            ctx.violation('nop-no-error', 'NOP with a negative / too large '
                          'count did not raise', case, 'error',
                          [x.hex() for x in list(stack.deque)[-3:]])
        return
    if exc is not None:
        ctx.violation('nop-raised', 'NOP raised although 0 <= count <= depth',
                      case, 'no error', repr(exc)[:120])
        return
    want = items[:depth - count] + [b'\xee\xee']
    got = list(stack.deque)
    if got != want:
        ctx.violation('nop-wrong-removal', 'NOP did not remove exactly count '
                      'items (or the next instruction did not run at '
                      'pointer+2)', case, f'{len(want)} items',
                      f'{len(got)} items, top={got[-1].hex() if got else None}')
    flags_want = {**functions.flags}
    c2 = {k: v for k, v in cache.items() if k != 'timestamp'}
    want_cache = dict(cache0)
    if kind == 'loop':
        # the loop wrapper itself uses POP0 (register b'P')
        c2.pop(b'P', None)
        want_cache.pop(b'P', None)
    if c2 != want_cache:
        ctx.violation('nop-cache-effect', 'NOP changed the cache', case,
                      repr(cache0), repr(c2)[:200])
    if dict(tape.flags) != flags_want:
        ctx.violation('nop-flag-effect', 'NOP changed the flags', case,
                      repr(flags_want), repr(dict(tape.flags))[:200])
    if not tape.has_terminated():
        ctx.violation('nop-pointer', 'tape not at its end', case)
    if count >= 1:
        ctx.mark_nontrivial(dg((code, cc, depth, kind)))


def judge_spelling(ctx, code, cc):
    functions, parsing, _, _, _ = env.mods()
    case = {'kind': 'spell', 'code': code, 'cc': cc}
    ctx.evaluated()
    src = f'NOP{code} x{cc:02x}'
    want = bytes([code, cc])
    try:
        b = parsing.compile_script(src)
    except BaseException as e:
        ctx.violation('nop-compile-rejected', f'{src} rejected', case,
                      want.hex(), repr(e)[:100])
        return
    if b != want:
        ctx.violation('nop-compile-wrong', f'{src} mis-assembled', case,
                      want.hex(), b.hex())
        return
    for spelling in (f'nop{code} x{cc:02x}',
                     f'NOP{code} d{cc - 256 if cc >= 128 else cc}'):
        try:
            b2 = parsing.compile_script(spelling)
            if b2 != want:
                ctx.violation('nop-compile-wrong', f'{spelling} mis-assembled',
                              case, want.hex(), b2.hex())
        except BaseException as e:
            ctx.violation('nop-compile-rejected', f'{spelling} rejected',
                          case, want.hex(), repr(e)[:100])
    # NOPn must compile wherever a statement may stand (rotating placements)
    cb = bytes([code, cc])
    placements = [
        (f'OP_PUSH1 x07 NOP{code} x{cc:02x} OP_TRUE', b'\x03\x01\x07' + cb + b'\x01'),
        (f'OP_PUSH2 x0708 NOP{code} x{cc:02x}', b'\x04\x00\x02\x07\x08' + cb),
        (f'push1 d1 x07 nop{code} x{cc:02x}', b'\x03\x01\x07' + cb),
        (f'true if {{ NOP{code} x{cc:02x} }} NOP{code} x{cc:02x}',
         b'\x01\x2b\x00\x02' + cb + cb),
        (f'def 0 {{ push x01 NOP{code} x{cc:02x} }} call d0',
         b'\x29\x00\x00\x04\x02\x01' + cb + b'\x2a\x00'),
        (f'true if true NOP{code} x{cc:02x} end_if NOP{code} x{cc:02x}',
         b'\x01\x2b\x00\x03\x01' + cb + cb),
        (f'try {{ NOP{code} x{cc:02x} }} except {{ NOP{code} x{cc:02x} }}',
         b'\x3d\x00\x02' + cb + b'\x00\x02' + cb),
        (f'true loop {{ pop0 NOP{code} x{cc:02x} false }}',
         b'\x01\x45\x00\x04\x06' + cb + b'\x00'),
        (f'if ( NOP{code} x{cc:02x} ) {{ true }}', cb + b'\x2b\x00\x01\x01'),
        (f'read_cache x6b NOP{code} x{cc:02x}', b'\x0a\x01\x6b' + cb),
        (f'@k NOP{code} x{cc:02x} @#k', b'\x0a\x01\x6b' + cb + b'\x0b\x01\x6b'),
        (f'swap d1 d2 NOP{code} x{cc:02x}', b'\x34\x01\x02' + cb),
    ]
    src2, want2 = placements[(code * 7 + cc) % len(placements)]
    try:
        b2 = parsing.compile_script(src2)
        if b2 != want2:
            ctx.violation('nop-compile-wrong', f'{src2} mis-assembled', case,
                          want2.hex(), b2.hex())
    except BaseException as e:
        ctx.violation('nop-compile-rejected', f'{src2} rejected (a NOPn '
                      'statement must compile wherever a statement may '
                      'stand)', case, want2.hex(), repr(e)[:100])
    try:
        lines = parsing.decompile_script(want)
    except BaseException as e:
        ctx.violation('nop-decompile-raised', 'decompile raised', case,
                      'NOPn line', repr(e)[:100])
        return
    if len(lines) != 1 or lines[0].split()[0] != f'NOP{code}':
        ctx.violation('nop-decompile-name', 'listing does not name NOPn',
                      case, f'NOP{code} ..', lines)
        return
    try:
        b3 = parsing.compile_script('\n'.join(lines))
    except BaseException as e:
        key = 'nop-listing-does-not-recompile'
        if cc >= 128:
            key = 'nop-count-printed-unsigned'
        ctx.violation(key, f'listing {lines} does not recompile', case,
                      want.hex(), repr(e)[:100])
        return
    if b3 != want:
        ctx.violation('nop-roundtrip-differs', f'listing {lines} recompiles '
                      'to other bytes', case, want.hex(), b3.hex())
    if cc:
        ctx.mark_nontrivial(dg(('sp', code, cc)))


# ------------------------------------------------------------------ part (b)

def gen_fork_script(rng, code):
    """script using `code` outside TRY; verdict-diverse."""
    depth = rng.randrange(0, 5)
    style = rng.random()
    items = []
    for _ in range(depth):
        r = rng.random()
        if r < 0.12:
            items.append(b'')
        elif r < 0.35:
            items.append(b'\x01')
        elif r < 0.5:
            items.append(b'\x00')
        elif r < 0.7:
            items.append(b'\x01\x02')
        else:
            items.append(bytes(rng.getrandbits(8)
                               for _ in range(rng.randrange(1, 4))))
    if style < 0.25 and depth >= 2:
        items = [items[0]] * depth                 # all equal
    count = rng.choice([0, 1, 2, depth, max(0, depth - 1), depth + 1,
                        rng.randrange(0, 5)])
    if rng.random() < 0.07:
        count = rng.choice((128, 255, 200))        # negative counts
    body = bytes([code, count & 0xff])
    kind = rng.choice(('top', 'top', 'if', 'else', 'def', 'eval', 'loop'))
    rest = max(0, depth - count) if count < 128 else depth
    tail = (isa.op('POP1') + bytes([rest])) if rng.random() < 0.8 \
        else (isa.op('POP1') + bytes([max(0, rest - 1)]))
    tail += isa.op('TRUE') if rng.random() < 0.9 else isa.op('FALSE')
    pre = b''
    if rng.random() < 0.3:
        # a register written before the forked code and read after it
        reg = rng.choice((b'P', b'k'))
        if reg == b'P':
            pre = isa.push(b'\x07') + isa.op('POP0')
        else:
            pre = isa.push(b'\x07') + isa.op('WRITE_CACHE') + b'\x01k\x01'
        tail = isa.op('READ_CACHE') + b'\x01' + reg + isa.op('POP0') + tail
    prog = pre + b''.join(isa.push(x) for x in items) \
        + ctx_wrap(kind if not pre else rng.choice(('top', 'if', 'def')),
                   body) + tail
    if rng.random() < 0.15:
        prog = prog[:rng.randrange(1, len(prog) + 1)]
    return prog, kind, count


def fork_side(inp):
    """runs in a fresh subprocess: install the fork op, run + compile."""
    env.bootstrap()
    functions, parsing, tools, _, errors = env.mods()
    code, pred, name, aliases = inp['code'], inp['pred'], inp['name'], \
        inp['aliases']

    def op(tape, stack, cache):
        count = int.from_bytes(tape.read(1), 'big', signed=True)
        if count < 0:
            raise errors.ScriptExecutionError('negative count')
        items = [stack.get() for _ in range(count)]
        ok = {'all_equal': lambda: len(set(items)) <= 1,
              'even_len': lambda: sum(map(len, items)) % 2 == 0,
              'first_nonzero': lambda: (not items) or any(items[0]),
              'always': lambda: False,
              'never': lambda: True}[pred]()
        if not ok:
            # an application's instruction fails with whatever exception its
            # own code raises (a lookup in a table, an index, an assert ...):
            # any of them ends the script
            raise {'see': errors.ScriptExecutionError, 'key': KeyError,
                   'index': IndexError, 'value': ValueError,
                   'assert': AssertionError, 'type': TypeError,
                   'lookup': LookupError, 'attr': AttributeError,
                   'stop': StopIteration}[inp.get('raises', 'see')](
                       'fork predicate failed')
    out = {'verdicts': [], 'compiled': {}, 'errors': []}
    targets = [b'\x01\x01' + bytes([code, 2]),
               b'\x01\x2b\x00\x04\x02\x01' + bytes([code, 1]) + b'\x01',
               b'\x29\x00\x00\x02' + bytes([code, 0]) + b'\x2a\x00\x01']
    if inp.get('prefork'):
        # the node used the old table earlier in the same process: the same
        # bytes were decompiled, compiled and run while the code was a NOP
        pre = []
        for t in targets:
            try:
                pre.append(parsing.decompile_script(t))
                tools.Script.from_bytes(t)
            except BaseException as e:
                pre.append('ERR ' + repr(e)[:120])
        out['decompiled_before'] = pre
        for s in inp['scripts']:
            try:
                functions.run_auth_scripts([s])
            except BaseException:
                pass
        for label, src in inp['sources'].items():
            try:
                parsing.compile_script(src.replace(name, f'NOP{code}')
                                       .replace(name.lower(), f'NOP{code}'))
            except BaseException:
                pass
    tools.add_soft_fork(code, name, op, aliases)
    for s in inp['scripts']:
        out['verdicts'].append(functions.run_auth_scripts([s]))
    for label, src in inp['sources'].items():
        try:
            out['compiled'][label] = parsing.compile_script(src)
        except BaseException as e:
            out['compiled'][label] = 'ERR ' + repr(e)[:120]
    try:
        out['decompiled'] = parsing.decompile_script(
            b'\x01\x01' + bytes([code, 2]))
        out['recompiled'] = parsing.compile_script(
            '\n'.join(out['decompiled']))
    except BaseException as e:
        out['decompiled'] = 'ERR ' + repr(e)[:120]
    out['after'] = []
    for t in targets:
        try:
            ls = parsing.decompile_script(t)
            out['after'].append([ls, parsing.compile_script('\n'.join(ls)),
                                 tools.Script.from_bytes(t).src])
        except BaseException as e:
            out['after'].append(['ERR ' + repr(e)[:120], None, None])
    out['targets'] = targets
    # every OTHER unassigned code is still the same no-op on this VM: it
    # runs, decompiles as NOPn and compiles from NOPn
    out['others'] = {}
    for oc in inp.get('other_codes', []):
        res = []
        s1 = b'\x01\x01' + bytes([oc, 1])
        try:
            res.append(functions.run_auth_scripts([s1]))
        except BaseException as e:
            res.append('ERR ' + repr(e)[:80])
        try:
            res.append(parsing.decompile_script(s1))
        except BaseException as e:
            res.append('ERR ' + repr(e)[:80])
        try:
            res.append(parsing.compile_script(f'true true NOP{oc} d1'))
        except BaseException as e:
            res.append('ERR ' + repr(e)[:80])
        out['others'][str(oc)] = res
    return out


def judge_fork(ctx, rng, code, pred, nscripts, prefork=None):
    functions, parsing, _, _, _ = env.mods()
    # names and aliases an application might pick: any letters after OP_,
    # also ones that begin with the letters of the prefix itself, or that
    # contain the name of a built-in instruction
    stem = rng.choice(('FORK', 'FORK', 'PAIRS_EQUAL_VERIFY', 'ORDERED',
                       'POP_EQUAL_VERIFY', 'OPPOSITE', '_PRIVATE', 'PUSH_ALL',
                       'CHECK_ALL_EQUAL_VERIFY', 'NOPE', 'P', 'O_P', 'X0',
                       'DUP_VERIFY', 'OP_OP'))
    name = f'OP_{stem}{code}'
    al = rng.choice(('FK', 'FK', 'PEV', 'OPX', 'P', '_F', 'CAEV', 'O', 'POP',
                     'PO_'))
    aliases = [f'{al}{code}', f'OP_{al}K{code}']
    ctx.tab('fork_name_stem', stem)
    ctx.tab('fork_alias_stem', al)
    # an application may keep the retired NOP name as an alias, so that old
    # sources go on compiling on the upgraded VM (to the same bytes)
    nop_alias = rng.random() < 0.5
    if nop_alias:
        aliases.append(f'NOP{code}')
    ctx.tab('fork_keeps_nop_name_as_alias', nop_alias)
    scripts, meta = [], []
    for _ in range(nscripts):
        s, kind, count = gen_fork_script(rng, code)
        scripts.append(s)
        meta.append((kind, count))
    sources = {
        'name': f'push x01 push x01 {name} d2 true',
        'name_lower': f'push x01 push x01 {name.lower()} d2 true',
        'alias0': f'push x01 push x01 {aliases[0]} d2 true',
        'alias1': f'push x01 push x01 {aliases[1].lower()} x02 true',
        'nop': f'push x01 push x01 NOP{code} d2 true',
    }
    # the same script with the forked code right after an explicit-width push
    # / inside blocks: fork spelling on the upgraded VM == NOPn spelling here
    pairs = [
        ('OP_PUSH1 x07 {} d1 OP_TRUE', b'\x03\x01\x07' + bytes([code, 1]) + b'\x01'),
        ('OP_PUSH2 x0708 {} d1', b'\x04\x00\x02\x07\x08' + bytes([code, 1])),
        ('true if {{ push x01 {} d1 }} true', b'\x01\x2b\x00\x04\x02\x01' + bytes([code, 1]) + b'\x01'),
        ('def 0 {{ {} d0 }} call d0 true', b'\x29\x00\x00\x02' + bytes([code, 0]) + b'\x2a\x00\x01'),
        ('true loop {{ {} d1 false }}', b'\x01\x45\x00\x03' + bytes([code, 1]) + b'\x00'),
        ('true if {{ true }} else {{ {} d1 }}', b'\x01\x2c\x00\x01\x01\x00\x02' + bytes([code, 1])),
        ('try {{ {} d1 }} except {{ {} d1 }}', b'\x3d\x00\x02' + bytes([code, 1]) + b'\x00\x02' + bytes([code, 1])),
        ('def 0 {} d1 end_def', b'\x29\x00\x00\x02' + bytes([code, 1])),
        ('if ( true {} d1 ) {{ }}', b'\x01' + bytes([code, 1]) + b'\x2b\x00\x00'),
        ('push ~ {{ {} d1 }}', b'\x03\x02' + bytes([code, 1])),
    ]
    # ... under the name and under each alias
    spelled = [name, aliases[0], aliases[1].lower()]
    pairs = [(t_.replace('{}', sp), w_) for t_, w_ in pairs for sp in spelled]
    for k_, (tmpl, wantb) in enumerate(pairs):
        sources[f'placed{k_}'] = tmpl.replace('{{', '{').replace('}}', '}')
    # every way of writing the count byte: d / x, values past 9 and past 127
    counts = []
    for cc in (0, 9, 10, 15, 16, 0x25, 0x7f, 0x80, 0xa0, 0xff,
               rng.randrange(256)):
        counts.append((f'x{cc:02x}', cc))
        counts.append((f'x{cc:02X}', cc))
        counts.append((f'd{cc}', cc))
    for k_, (txt, cc) in enumerate(counts):
        sources[f'count{k_}'] = f'{rng.choice((name, aliases[0]))} {txt}'
    raises = rng.choice(('see', 'see', 'key', 'key', 'index', 'value',
                         'assert', 'type', 'lookup', 'attr', 'stop'))
    ctx.tab('fork_failure_raises', raises)
    inp = {'raises': raises,
           'code': code, 'pred': pred, 'name': name, 'aliases': aliases,
           'scripts': scripts, 'sources': sources,
           'prefork': (rng.random() < 0.6) if prefork is None else prefork,
           'other_codes': sorted({92, 93, 255, 254, (code + 1 - 92) % 164 + 92,
                                  (code - 1 - 92) % 164 + 92,
                                  rng.randrange(92, 256)} - {code})}
    ctx.tab('fork_process_used_old_table_first', inp['prefork'])
    with tempfile.TemporaryDirectory(dir=os.path.join(
            os.path.dirname(os.path.dirname(os.path.dirname(
                os.path.abspath(__file__)))), '.work')) as td:
        ip, op_ = os.path.join(td, 'in.json'), os.path.join(td, 'out.json')
        jsonx.dump_file(inp, ip)
        e = dict(os.environ)
        r = subprocess.run([sys.executable, '-B', '-m', 'tsverif.props.c20',
                            'fork', ip, op_], env=e, capture_output=True,
                           timeout=300)
        if r.returncode != 0 or not os.path.exists(op_):
            ctx.inconclusive_because('fork-side process failed: '
                                     + r.stderr.decode()[-500:])
            return
        out = jsonx.load_file(op_)
    ctx.count('fork_processes')
    want_bytes = b'\x02\x01\x02\x01' + bytes([code, 2]) + b'\x01'
    plain_nop = None
    try:
        plain_nop = parsing.compile_script(sources['nop'])
    except BaseException as e:
        plain_nop = 'ERR ' + repr(e)[:100]
    for label in ('name', 'name_lower', 'alias0', 'alias1') + \
            (('nop',) if nop_alias else ()):
        got = out['compiled'].get(label)
        ctx.evaluated()
        if got != want_bytes or got != plain_nop:
            ctx.violation('fork-compile-differs', f'upgraded VM compiles the '
                          f'{label} spelling differently from NOP{code} on '
                          'the plain VM', {'kind': 'fork-compile', 'code': code,
                                           'label': label, 'src': sources[label]},
                          want_bytes.hex(), got.hex() if isinstance(got, bytes)
                          else got)
    for k_, (tmpl, wantb) in enumerate(pairs):
        ctx.evaluated()
        up = out['compiled'].get(f'placed{k_}')
        src_ = tmpl.replace('{{', '{').replace('}}', '}')
        sp_ = spelled[k_ % len(spelled)]
        try:
            plain_b = parsing.compile_script(src_.replace(sp_, f'NOP{code}'))
        except BaseException as e:
            plain_b = 'ERR ' + repr(e)[:100]
        if up != wantb or plain_b != wantb:
            ctx.violation('fork-compile-differs', 'a script using the forked '
                          'code compiles differently (or not at all) on one '
                          'of the two VMs', {'kind': 'fork-compile', 'code':
                                             code, 'label': f'placed{k_}',
                                             'src': src_},
                          wantb.hex(), f'upgraded={up!r} plain={plain_b!r}'[:200])
    for k_, (txt, cc) in enumerate(counts):
        ctx.evaluated()
        up = out['compiled'].get(f'count{k_}')
        wantb = bytes([code, cc])
        plain_b = None
        if txt[0] == 'x' or cc < 128:
            # the NOP it replaces takes the same text (its d form is signed)
            try:
                plain_b = parsing.compile_script(f'NOP{code} {txt}')
            except BaseException as e:
                plain_b = 'ERR ' + repr(e)[:100]
        if up != wantb or (plain_b is not None and plain_b != wantb):
            ctx.violation('fork-compile-differs', f'count written {txt}: the '
                          'forked spelling on the upgraded VM and the NOPn '
                          'spelling do not both give <code><count>',
                          {'kind': 'fork-compile', 'code': code,
                           'label': f'count:{txt}', 'src': sources[f'count{k_}']},
                          wantb.hex(), f'upgraded={up!r} plain={plain_b!r}'[:200])
            break
    if out.get('recompiled') != b'\x01\x01' + bytes([code, 2]) or \
            not isinstance(out.get('decompiled'), list) or \
            not any(name in ln for ln in out['decompiled']):
        ctx.violation('fork-decompile', 'forked op does not decompile / '
                      'round-trip by its name', {'kind': 'fork-decompile',
                                                 'code': code},
                      name, out.get('decompiled'))
    for t, (ls, rb, src) in zip(out.get('targets', []), out.get('after', [])):
        ctx.evaluated()
        ok = isinstance(ls, list) and rb == t and \
            any(name in ln for ln in ls) and isinstance(src, str) and \
            name in src and not any(f'NOP{code}' in ln for ln in ls)
        if not ok:
            ctx.violation('fork-decompile', 'after the fork, bytes holding '
                          'the forked code do not decompile by its name / do '
                          'not round-trip' + (' (the process had decompiled '
                                              'them before the fork)'
                                              if inp['prefork'] else ''),
                          {'kind': 'fork-decompile', 'code': code,
                           'prefork': inp['prefork']}, name,
                          repr(ls)[:200])
            break
    for oc in inp['other_codes']:
        ctx.evaluated()
        want = [True, ['OP_TRUE', 'OP_TRUE', f'NOP{oc} d1'],
                b'\x01\x01' + bytes([oc, 1])]
        got = out.get('others', {}).get(str(oc))
        if got != want:
            ctx.violation('fork-disturbs-other-code', f'with code {code} '
                          f'forked, the unassigned code {oc} no longer runs / '
                          'decompiles / compiles as the no-op NOPn',
                          {'kind': 'fork-others', 'code': code, 'other': oc,
                           'prefork': inp['prefork']}, repr(want)[:160],
                          repr(got)[:200])
            break
    for pre in out.get('decompiled_before', []):
        if not isinstance(pre, list) or \
                not any(f'NOP{code}' in ln for ln in pre):
            ctx.violation('nop-decompile-name', 'before the fork the code '
                          'does not decompile as NOPn', {'kind':
                                                         'fork-decompile',
                                                         'code': code,
                                                         'prefork': True},
                          f'NOP{code}', repr(pre)[:200])
            break
    ups = 0
    for s, (kind, count), up in zip(scripts, meta, out['verdicts']):
        plain = functions.run_auth_scripts([s])
        ctx.evaluated()
        ctx.tab('fork_pair', f'up={up} plain={plain}')
        if up:
            ups += 1
        if up and not plain:
            ctx.violation('softfork-implication', 'script authorises on the '
                          'upgraded VM but not on the plain VM',
                          {'kind': 'fork', 'code': code, 'pred': pred,
                           'script': s, 'ctx': kind, 'count': count},
                          'plain=True', 'plain=False')
        if (not up and plain) or (count >= 1 and count < 128):
            ctx.mark_nontrivial(dg(s + bytes([code]) + pred.encode()))
    ctx.count('fork_upgraded_authorised', ups)


def run_shard(spec, ctx):
    i, of = spec['shard'], spec['of']
    tier = ctx.tier
    rng = ctx.rng('main')
    counts = range(256) if tier == 'thorough' else QCOUNTS
    codes = list(isa.NOP_CODES)
    n = 0
    for code in codes:
        if code % of != i:
            continue
        for cc in counts:
            for depth in DEPTHS:
                judge_nop(ctx, code, cc, depth, 'top')
            # nested contexts on a rotating (count, depth)
            for kind in ('if', 'else', 'def', 'eval', 'loop'):
                judge_nop(ctx, code, cc, DEPTHS[(cc + code) % 4 + 0], kind)
        for cc in range(256):
            judge_spelling(ctx, code, cc)
        n += 1
    ctx.exhaustive('codes 92..255 x listed counts x depths; NOPn spelling '
                   'for every code x count byte')
    ctx.sample({'kind': 'nop', 'code': 255, 'cc': 200, 'depth': 3,
                'ctx': 'top'})
    # part (b)
    free = codes
    if tier == 'quick':
        mine = [c for k, c in enumerate((92, 93, 127, 128, 200, 255))
                if k % of == i % 6 and i < 6] if of >= 6 else free[:2]
        nscripts = 400
    else:
        mine = [c for c in free if c % of == i]
        nscripts = 2000
    for k, code in enumerate(mine):
        pred = PREDS[(code + k) % len(PREDS)]
        judge_fork(ctx, rng, code, pred, nscripts)
        judge_fork(ctx, rng, code, PREDS[(code + k + 1) % len(PREDS)],
                   nscripts // 2)


def finalize(agg, tier):
    out = []
    c = agg['counters']
    if not c.get('fork_processes'):
        out.append('no fork-side process completed')
    if not c.get('fork_upgraded_authorised'):
        out.append('no script authorised on the upgraded VM (implication '
                   'vacuous)')
    return out


def replay(case, ctx):
    k = case.get('kind')
    if k == 'nop':
        judge_nop(ctx, case['code'], case['cc'], case['depth'], case['ctx'])
    elif k == 'spell':
        judge_spelling(ctx, case['code'], case['cc'])
    elif k == 'fork':
        functions = env.mods()[0]
        ctx.evaluated()
        plain = functions.run_auth_scripts([case['script']])
        if not plain:
            ctx.violation('softfork-implication', 'plain VM rejects a script '
                          'the upgraded VM authorised', case)
    else:
        judge_fork(ctx, ctx.rng('replay'), case['code'], 'never', 50,
                   case.get('prefork'))


if __name__ == '__main__':
    if sys.argv[1] == 'fork':
        res = fork_side(jsonx.load_file(sys.argv[2]))
        jsonx.dump_file(res, sys.argv[3])
