"""C18 — anonymous multi-hop locks: consistent setup and right-to-left release
cascade.

setup_amhl / AMHL.* / decrypt_adapter / release_left_amhl_lock are the real
functions; sums of secrets and points are recomputed with the pure-Python
Ed25519 reference. A *history checker* replays release histories (orders in
which hops are attempted) against a knowledge model: a hop can be released iff
its scalar K_h = y_0 + .. + y_h is known; releasing hop h reveals K_{h-1}.
"""
from __future__ import annotations
import hashlib
import itertools

from .. import env
from ..ref import ed25519 as E
from ..ref import isa, sigmsg

ID = 'C18'
BUILDER_DEFAULTS = True     # tools.* goes through tsverif/omit.py
RULE = ('chains n = 2..8 from random seeds and key sets, per-hop sigfields, '
        'with and without refund keys (PTLC second lock); per chain: tweak '
        'point identity T_i = sum_{j<=i} y_j*G and final key (pure Python), '
        'check_setup for every party view + tampered views, every hop\'s '
        'adapter lock, the right-to-left cascade, scalars of other hops / '
        'another chain on every hop, and release histories = all '
        'permutations of hop order for n <= 4 (quick) / 5 (thorough), sampled '
        'beyond. distinct = by (seed, keys, history); non-trivial = n >= 3 or '
        'a wrong-order history'
        " [plus seeds of 0..200 bytes (empty, all-zero, trailing NULs), the other chain's seed related to the chain's (padding, truncation, digest, one bit), seed histories, per-chain flags, registers-off processes]")
ASSUMPTIONS = [
    'pure-Python Ed25519 reference for scalar / point sums',
    'a party can only use scalars it has learned: the final key, and K_{h-1} '
    'after hop h was released',
]
NSH = 16
NCHAIN = {'quick': 192, 'thorough': 9000}
L = E.L


def shards(tier, seed):
    return [{'shard': i, 'of': NSH} for i in range(NSH)]


def rbytes(rng, n):
    return bytes(rng.getrandbits(8) for _ in range(n))


def auth(scripts, cache):
    functions = env.mods()[0]
    try:
        ss = [bytes(s) for s in scripts]
        return functions.run_auth_scripts(ss, dict(cache),
                                          **env.roomy_limits(*ss))
    except BaseException as e:
        return e


def dg(*x) -> bytes:
    h = hashlib.blake2b(digest_size=8)
    for y in x:
        h.update(repr(y).encode())
    return h.digest()


def le(n):
    return (n % L).to_bytes(32, 'little')


class Chain:
    pass


def related_seed(rng, seed):
    """a DIFFERENT seed that an implementation which pads, truncates,
    pre-hashes or re-interprets its seed could confuse with `seed`"""
    import hashlib as _h
    k = rng.choice(('nul', 'nuls', 'pad64', 'strip', 'digest', 'bitflip',
                    'prefix0', 'drop-last', 'double', 'case'))
    out = {
        'nul': seed + b'\x00', 'nuls': seed + bytes(rng.randrange(2, 40)),
        'pad64': seed + bytes(max(1, 64 - len(seed))),
        'strip': seed.rstrip(b'\x00'), 'digest': _h.sha256(seed).digest(),
        'bitflip': bytes([seed[0] ^ 1]) + seed[1:] if seed else b'\x01',
        'prefix0': b'\x00' + seed, 'drop-last': seed[:-1],
        'double': seed + seed, 'case': seed.swapcase(),
    }[k]
    if out == seed:
        out, k = seed + b'\x00', 'nul'
    return out, k


def build(ctx, rng, n, with_refund, seed=None):
    functions, parsing, tools, _, _ = env.mods()
    from tapescript.AMHL import AMHL
    c = Chain()
    c.n = n
    if seed is None:
        # any byte string is a seed: short, long (beyond a hash block), with
        # trailing zero bytes, all zero
        r = rng.random()
        seed = rbytes(rng, rng.choice((16, 32))) if r < 0.6 else \
            rbytes(rng, rng.choice((1, 5, 63, 64, 65, 100, 200))) if r < 0.8 \
            else rbytes(rng, rng.choice((3, 16, 31))) + bytes(rng.choice((1, 2, 33))) \
            if r < 0.93 else bytes(rng.choice((0, 0, 1, 8, 32, 64)))
        # (the EMPTY seed makes the library draw its own secrets: the result
        # of one setup call is self-consistent all the same)
    c.seed = seed
    c.seeds = [rbytes(rng, 32) for _ in range(n)]
    c.pks = [sigmsg.pubkey(s) for s in c.seeds]
    from ..gen import auth as _auth
    c.fields = [_auth.sigfields(rng) for i in range(n)]
    # the builders' sigflags argument selects the message on both sides
    c.flag = rng.choice((0, 0, 0, 0x10, 0xa0, 0x82, 0x40))
    c.fhex = f'{c.flag:02x}'
    c.refund = {}
    c.refund_seeds = {}
    if with_refund:
        for i in range(n):
            if rng.random() < 0.6:
                rs = rbytes(rng, 32)
                c.refund_seeds[i] = rs
                c.refund[c.pks[i]] = sigmsg.pubkey(rs)
    # the same seed may have served another chain earlier in the process
    # (longer or shorter): nothing of that may reach this setup
    hist = rng.choice(('none', 'none', 'longer', 'longer', 'shorter',
                       'samples'))
    ctx.tab('seed_history', hist)
    try:
        if hist == 'longer':
            extra = [sigmsg.pubkey(rbytes(rng, 32))
                     for _ in range(rng.randrange(1, 4))]
            tools.setup_amhl(c.seed, list(c.pks) + extra, c.fhex)
        elif hist == 'shorter' and n > 2:
            tools.setup_amhl(c.seed, list(c.pks[:n - 1]), c.fhex)
        elif hist == 'samples':
            AMHL.samples(n + 3, c.seed)
            AMHL.setup(n + 2, c.seed)
    except BaseException:
        pass
    c.res = tools.setup_amhl(c.seed, list(c.pks), c.fhex,
                             refund_pubkeys=c.refund or None)
    c.setup = AMHL.setup(n, c.seed)
    c.AMHL = AMHL
    c.T = [c.res[pk][2] for pk in c.pks]
    c.y = [c.res[pk][3] for pk in c.pks]
    c.key = c.res['key']
    c.wits = [tools.make_adapter_witness(c.seeds[i], c.T[i], c.fields[i],
                                         c.fhex) for i in range(n)]
    # model: cumulative scalars
    acc = 0
    c.K = []
    for i in range(n):
        acc = (acc + int.from_bytes(c.y[i], 'little')) % L
        c.K.append(acc)
    return c


def lock2_ok(c, i, sig):
    """does `sig` satisfy hop i's signature lock?"""
    lock2 = c.res[c.pks[i]][1]
    flag = getattr(c, 'flag', 0)
    sig = sig + (bytes([flag]) if flag else b'')
    if c.pks[i] in c.refund:
        return auth([isa.push(sig) + isa.op('TRUE'), lock2], c.fields[i]) \
            is True
    return auth([isa.push(sig), lock2], c.fields[i]) is True


def try_release(c, h, scalar: bytes):
    """attempt hop h with a scalar: -> (sig or None)"""
    tools = env.mods()[2]
    try:
        sig = tools.decrypt_adapter(c.wits[h], scalar)
    except BaseException:
        return None
    if len(sig) == 64 and lock2_ok(c, h, sig):
        return sig
    return None


def judge_setup(ctx, c, case):
    n = c.n
    ctx.evaluated()
    # tweak point identity, pure python
    acc = None
    for i in range(n):
        yi = int.from_bytes(c.y[i], 'little') & ((1 << 255) - 1)
        p = E.mul(yi, E.G)
        acc = p if acc is None else E.add(acc, p)
        if E.encode(acc) != c.T[i]:
            ctx.violation('tweak-point-not-cumulative', f'hop {i}: tweak '
                          'point is not the sum of the points of secrets '
                          '0..i', case, E.encode(acc).hex(), c.T[i].hex())
            return False
    if int.from_bytes(c.key, 'little') % L != c.K[n - 1]:
        ctx.violation('final-key-not-sum', 'final key is not the sum of all '
                      'secrets', case)
        return False
    if not c.AMHL.verify_lock_key(c.T[n - 1], c.key):
        ctx.violation('final-key-does-not-open-last-lock', 'verify_lock_key('
                      'T_last, key) is False', case)
        return False
    for i in range(n):
        if c.AMHL.verify_lock_key(c.T[i], c.key) and i != n - 1:
            ctx.violation('final-key-opens-other-lock', f'final key opens '
                          f'hop {i}', case)
    ctx.count('setups_checked_pure_python')
    # every party's view validates; tampered views do not
    for i in range(n + 1):
        ctx.evaluated()
        view = c.AMHL.setup_for(c.setup, i)
        if not c.AMHL.check_setup(view, i, n):
            ctx.violation('party-view-fails-validation', f'check_setup fails '
                          f'for party {i} of {n}', case)
            return False
        if 0 < i < n:
            for k in range(3):
                bad = list(view)
                other = c.AMHL.setup_for(c.setup, (i % (n - 1)) + 1
                                         if n > 2 else i)
                repl = le(int.from_bytes(view[2], 'little') + 1) if k == 2 \
                    else E.encode(E.mul(7 + k + i, E.G))
                bad[k] = repl
                try:
                    ok = c.AMHL.check_setup(tuple(bad), i, n)
                except BaseException:
                    ok = False
                if ok:
                    ctx.violation('tampered-view-validates', f'check_setup '
                                  f'accepts party {i} view with element {k} '
                                  'replaced', case)
    # every hop's adapter lock accepts its witness; not the neighbour's
    for i in range(n):
        ctx.evaluated()
        lock1 = c.res[c.pks[i]][0]
        if auth([c.wits[i], lock1], c.fields[i]) is not True:
            ctx.violation('hop-adapter-lock-rejects', f'hop {i}: adapter lock '
                          'rejects the adapter witness made for its tweak '
                          'point', case)
            return False
        j = (i + 1) % n
        if auth([c.wits[j], lock1], c.fields[i]) is True:
            ctx.violation('hop-adapter-lock-accepts-foreign', f'hop {i}: '
                          f'adapter lock accepts hop {j}\'s witness', case)
    return True


def judge_cascade(ctx, c, case, other_chain):
    """right-to-left cascade + foreign scalars"""
    tools = env.mods()[2]
    n = c.n
    scalar = c.key
    for h in range(n - 1, -1, -1):
        ctx.evaluated()
        if int.from_bytes(scalar, 'little') % L != c.K[h]:
            ctx.violation('cascade-scalar-wrong', f'scalar available for hop '
                          f'{h} is not y_0+..+y_{h}', case,
                          le(c.K[h]).hex(), scalar.hex())
            return False
        sig = try_release(c, h, scalar)
        if sig is None:
            ctx.violation('cascade-breaks', f'hop {h}: the released scalar '
                          'does not decrypt the adapter into a signature '
                          'satisfying the hop\'s lock', case)
            return False
        if not E.verify(c.pks[h], sigmsg.message(c.fields[h],
                                                 getattr(c, 'flag', 0)), sig):
            ctx.violation('cascade-signature-invalid', f'hop {h}: decrypted '
                          'signature fails RFC 8032 verification', case)
            return False
        # scalars of other hops / another chain must not work here
        for j in range(n):
            if j != h:
                if try_release(c, h, le(c.K[j])) is not None:
                    ctx.violation('foreign-hop-scalar-works', f'hop {h} '
                                  f'released with the scalar of hop {j}', case)
        if try_release(c, h, other_chain.key) is not None or \
                try_release(c, h, le(other_chain.K[min(h, other_chain.n - 1)])) \
                is not None:
            ctx.violation('foreign-chain-scalar-works', f'hop {h} released '
                          'with a scalar of another chain', case)
        if h > 0:
            try:
                scalar = tools.release_left_amhl_lock(c.wits[h], sig, c.y[h])
            except BaseException as e:
                ctx.violation('release-raised', f'release_left_amhl_lock '
                              f'raised at hop {h}: {e!r}'[:140], case)
                return False
    ctx.count('cascades_completed')
    return True


def judge_history(ctx, c, case, order):
    """knowledge-model history checker"""
    tools = env.mods()[2]
    known = [c.key]
    model_known = {c.n - 1}
    released = set()
    ok_all = True
    for step, h in enumerate(order):
        ctx.count('history_steps')
        want = h in model_known and h not in released
        sig = None
        for s in known:
            sig = try_release(c, h, s)
            if sig is not None:
                break
        got = sig is not None
        if got != want:
            ctx.violation('history-step-differs', f'history {order}: step '
                          f'{step} (hop {h}) '
                          f'{"succeeded" if got else "failed"} but the '
                          f'knowledge model says {want}',
                          dict(case, history=list(order)), want, got)
            return
        if not got:
            ok_all = False
            continue
        released.add(h)
        if h > 0:
            try:
                nxt = tools.release_left_amhl_lock(c.wits[h], sig, c.y[h])
            except BaseException:
                ctx.violation('release-raised', 'release_left_amhl_lock '
                              'raised', dict(case, history=list(order)))
                return
            known.append(nxt)
            model_known.add(h - 1)
    rtl = list(order) == list(range(c.n - 1, -1, -1))
    if ok_all != rtl and len(set(order)) == c.n:
        ctx.violation('history-order', f'history {order} '
                      f'{"succeeded" if ok_all else "failed"} at every step '
                      f'(right-to-left={rtl})',
                      dict(case, history=list(order)), rtl, ok_all)
        return
    ctx.tab('history', 'right-to-left' if rtl else 'other-order')
    ctx.mark_nontrivial(dg(c.seed, c.seeds, order))


def judge_chain(ctx, rng, j):
    n = rng.choice((2, 2, 3, 3, 4, 4, 5, 6, 7, 8))
    with_refund = rng.random() < 0.4
    c = build(ctx, rng, n, with_refund)
    # the other chain: an unrelated seed, or one that differs from this
    # chain's seed only by padding / truncation / hashing / one bit
    if rng.random() < 0.5:
        oseed, rel = related_seed(rng, c.seed)
        other = build(ctx, rng, rng.choice((2, 3, n, n)), False, seed=oseed)
    else:
        rel = 'unrelated'
        other = build(ctx, rng, rng.choice((2, 3)), False)
        if other.seed == c.seed and c.seed:
            # two draws of the same all-zero seed ARE the same chain
            other = build(ctx, rng, other.n, False, seed=c.seed + b'\x01')
    ctx.tab('other_chain_seed', rel)
    case = {'kind': 'chain', 'n': n, 'seed': c.seed, 'seeds': c.seeds,
            'refund_hops': sorted(c.refund_seeds), 'other_seed': other.seed,
            'other_n': other.n}
    ctx.tab('chain_length', n)
    if not judge_setup(ctx, c, case):
        return
    if not judge_cascade(ctx, c, case, other):
        return
    if n >= 3:
        ctx.mark_nontrivial(dg('cascade', c.seed, c.seeds))
    maxperm = 4 if ctx.tier == 'quick' else 5
    if n <= maxperm:
        orders = list(itertools.permutations(range(n)))
        ctx.exhaustive(f'all release orders for chains with n <= {maxperm}')
    else:
        orders = [tuple(range(n - 1, -1, -1))]
        for _ in range(12):
            o = list(range(n))
            rng.shuffle(o)
            orders.append(tuple(o))
    for o in orders:
        ctx.evaluated()
        judge_history(ctx, c, case, o)
    if j % 8 == 0:
        ctx.sample({'n': n, 'T': c.T, 'key': c.key, 'refund_hops':
                    sorted(c.refund_seeds)})


def run_shard(spec, ctx):
    i, of = spec['shard'], spec['of']
    n = max(1, NCHAIN[ctx.tier] // of)
    for j in range(n):
        # a third of the chains live in a process configured with every
        # register export off (functions.flags[1..9] = False)
        off = j % 3 == 1
        ctx.tab('registers', 'off' if off else 'default')
        with env.global_flags(env.REGISTERS_OFF if off else {}):
            judge_chain(ctx, ctx.rng(j), j)


def finalize(agg, tier):
    out = []
    c = agg['counters']
    if not c.get('cascades_completed'):
        out.append('no cascade completed')
    if not c.get('setups_checked_pure_python'):
        out.append('no setup checked')
    h = agg['tables'].get('history', {})
    if not h.get('other-order') or not h.get('right-to-left'):
        out.append(f'histories not diverse: {h}')
    return out


def replay(case, ctx):
    # the chain is regenerated from the recorded seeds
    functions, parsing, tools, _, _ = env.mods()
    from tapescript.AMHL import AMHL
    rng = ctx.rng('replay')
    c = Chain()
    c.n = case['n']
    c.seed = case['seed']
    c.seeds = case['seeds']
    c.pks = [sigmsg.pubkey(s) for s in c.seeds]
    c.fields = [{'sigfield1': b'replayfield!', 'sigfield2': bytes([i])}
                for i in range(c.n)]
    c.refund, c.refund_seeds = {}, {}
    c.res = tools.setup_amhl(c.seed, list(c.pks), '00')
    c.setup = AMHL.setup(c.n, c.seed)
    c.AMHL = AMHL
    c.T = [c.res[pk][2] for pk in c.pks]
    c.y = [c.res[pk][3] for pk in c.pks]
    c.key = c.res['key']
    c.wits = [tools.make_adapter_witness(c.seeds[i], c.T[i], c.fields[i], '00')
              for i in range(c.n)]
    acc, c.K = 0, []
    for i in range(c.n):
        acc = (acc + int.from_bytes(c.y[i], 'little')) % L
        c.K.append(acc)
    other = build(ctx, rng, case.get('other_n', 2), False,
                  seed=case.get('other_seed'))
    if judge_setup(ctx, c, case) and judge_cascade(ctx, c, case, other):
        if 'history' in case:
            judge_history(ctx, c, case, tuple(case['history']))
