"""C03 — multisig passes only with m valid signatures from m different keys.

Oracle: for every supplied signature the set of key *positions* it verifies
under (C02 model, libsodium directly); expected True iff an injective
assignment signature -> key position exists (brute force). Order invariance is
checked over permutations of keys and of signatures.
"""
from __future__ import annotations
import hashlib
import itertools

from .. import env
from ..ref import isa, sigmsg

ID = 'C03'
RULE = ('n<=5 distinct keys, m in 0..n+1, each signature drawn from {listed '
        'signer i, same signer with another permitted flag byte, '
        'byte-identical duplicate, outsider, corrupted, wrong length, '
        'non-permitted flag}; exhaustive over that alphabet for n<=3 (quick) '
        '/ n<=4,m<=3 (thorough), random beyond; all permutations of keys and '
        'signatures for n<=4, sampled for n=5; also make_multisig_lock + '
        'single-sig witnesses through run_auth_scripts. distinct = by '
        '(n, m, signature kinds, order); non-trivial = at least one valid and '
        'one invalid/duplicate signature, or m == n'
        ' [plus non-idempotent extension plugins (two thirds of those runs inside a block body), shuffled field order, non-default limits]')
ASSUMPTIONS = [
    'per-signature validity from the C02 model with libsodium called directly',
    'keys of one case are pairwise distinct (statement: n distinct keys)',
]
NSH = 16
KINDS = ('signer', 'flagvar', 'dup', 'outsider', 'corrupt', 'badlen',
         'badflag')


def shards(tier, seed):
    return [{'shard': i, 'of': NSH} for i in range(NSH)]


# embedder signature extensions that are NOT idempotent: the instruction runs
# them exactly once, so the message every (signature, key) attempt is checked
# against is the one after a single application
class Ext:
    calls = 0


def _ext_step(tape, stack, cache):
    Ext.calls += 1
    cache['sigfield1'] = hashlib.sha256(
        b'step' + cache.get('sigfield1', b'')).digest()[:12]


def _ext_meter(tape, stack, cache):
    Ext.calls += 1
    if Ext.calls > 1:
        raise ValueError('signature-operation budget of this run exhausted')


def _ext_append(tape, stack, cache):
    Ext.calls += 1
    cache['sigfield8'] = cache.get('sigfield8', b'') + b'+'


EXTS = {'step': _ext_step, 'meter': _ext_meter, 'append': _ext_append}


def effective(fields, plugin):
    """the sigfields after the extension ran once"""
    f = dict(fields)
    if plugin == 'step':
        f['sigfield1'] = hashlib.sha256(
            b'step' + f.get('sigfield1', b'')).digest()[:12]
    elif plugin == 'append':
        f['sigfield8'] = f.get('sigfield8', b'') + b'+'
    return f


# with an extension in force, two thirds of the programs run inside the body
# of a block construct (one in which an error still ends the script): what the
# run was given governs the instruction wherever it stands
BLOCKS = (None, 'IF', 'THEN', 'ELSE', 'EXCEPT', 'LOOP', 'CALL', 'EVAL', None,
          'IF', 'ELSE', 'EXCEPT')


def run(prog, cache, plugin=None):
    functions = env.mods()[0]
    Ext.calls = 0
    if plugin:
        from . import c09
        blk = BLOCKS[hashlib.blake2b(prog, digest_size=2).digest()[0]
                     % len(BLOCKS)]
        if blk:
            prog = c09.place((blk,), prog)
    try:
        if plugin:
            _, stack, _ = functions.run_script(
                prog, cache, plugins={'signature_extensions': [EXTS[plugin]]},
                **env.roomy_limits(prog))
        else:
            _, stack, _ = functions.run_script(prog, cache,
                                               **env.roomy_limits(prog))
        return list(stack.deque), None
    except BaseException as e:
        return None, e


def matching_exists(adj, m) -> bool:
    """adj[s] = set of key positions signature s verifies under."""
    def rec(s, used):
        if s == m:
            return True
        for k in adj[s]:
            if k not in used and rec(s + 1, used | {k}):
                return True
        return False
    return rec(0, frozenset())


def build_case(rng, n, spec, allowed, fields):
    """spec: list of (kind, signer index) per signature."""
    seeds = [bytes(rng.getrandbits(8) for _ in range(32)) for _ in range(n)]
    keys = [sigmsg.pubkey(s) for s in seeds]
    outsider = bytes(rng.getrandbits(8) for _ in range(32))
    permitted = [f for f in range(256) if not (f & ~allowed & 0xff)]
    sigs = []
    for kind, who in spec:
        who = who % max(n, 1)
        f = 0
        if kind == 'flagvar' and len(permitted) > 1:
            f = rng.choice([x for x in permitted if x])
        if kind == 'badflag':
            bad = [x for x in range(1, 256) if x & ~allowed & 0xff]
            if not bad:
                kind = 'signer'
            else:
                f = rng.choice(bad)
        seed = outsider if kind == 'outsider' else (seeds[who] if n else outsider)
        sig = sigmsg.sign(seed, sigmsg.message(fields, f))
        if f:
            sig += bytes([f])
        if kind == 'dup' and sigs:
            sig = sigs[rng.randrange(len(sigs))]
        elif kind == 'corrupt':
            a = bytearray(sig)
            a[rng.randrange(64)] ^= 1 << rng.randrange(8)
            sig = bytes(a)
        elif kind == 'badlen':
            sig = sig[:63] if rng.random() < 0.5 else sig[:64] + b'\x01\x00'
        sigs.append(sig)
    return keys, sigs


def expected(fields, keys, sigs, allowed, m, n):
    """-> True / False / 'not-true' (malformed item or non-permitted flag:
    false or error, never true)"""
    if len(sigs) != m or len(keys) != n:
        return 'not-true'
    malformed = any(len(s) not in (64, 65) for s in sigs) \
        or any(len(k) != 32 for k in keys)
    badflag = any(len(s) == 65 and s[64] & ~allowed & 0xff for s in sigs)
    adj = []
    for s in sigs:
        if len(s) not in (64, 65) or (len(s) == 65 and s[64] & ~allowed & 0xff):
            adj.append(set())
            continue
        f = s[64] if len(s) == 65 else 0
        msg = sigmsg.message(fields, f)
        adj.append({i for i, k in enumerate(keys)
                    if sigmsg.valid_fast(k, msg, s[:64])})
    ok = matching_exists(adj, len(sigs))
    if malformed or badflag:
        return 'not-true'
    return ok


def prog_for(keys, sigs, allowed, m, n, verify=False, below=()):
    p = b''.join(isa.push1(x) for x in below)
    p += b''.join(isa.push1(s) for s in sigs)
    p += b''.join(isa.push1(k) for k in keys)
    p += isa.op('CHECK_MULTISIG_VERIFY' if verify else 'CHECK_MULTISIG')
    return p + bytes([allowed, m, n])


def observe(st, exc, nbelow):
    if exc is not None:
        return 'error'
    if len(st) == nbelow + 1 and st[-1] in (b'\xff', b'\x00'):
        return st[-1] == b'\xff'
    return ('odd', [x.hex()[:20] for x in st])


def dg(x) -> bytes:
    return hashlib.blake2b(repr(x).encode(), digest_size=8).digest()


def judge(ctx, case, perms=True):
    fields, keys, sigs = case['fields'], case['keys'], case['sigs']
    allowed, m, n = case['allowed'], case['m'], case['n']
    below = case.get('below', [])
    plugin = case.get('plugin')
    ctx.tab('extension', plugin)
    want = expected(effective(fields, plugin), keys, sigs, allowed, m, n)
    st, exc = run(prog_for(keys, sigs, allowed, m, n, below=below),
                  dict(fields), plugin)
    if plugin and Ext.calls != 1 and exc is None:
        ctx.violation('multisig-extension-count', 'the signature extension '
                      f'ran {Ext.calls} times for one CHECK_MULTISIG', case,
                      1, Ext.calls)
    got = observe(st, exc, len(below))
    ctx.evaluated()
    ctx.tab('expected', want)
    bad = (got is True) if want == 'not-true' else (got != want)
    if not bad and exc is None and st[:len(below)] != list(below):
        bad, got = True, ('consumed-extra', [x.hex()[:20] for x in st])
    if bad:
        key = {True: 'multisig-rejects-quorum', False: 'multisig-accepts',
               'not-true': 'multisig-accepts-malformed'}[want]
        if want is False and got == 'error':
            key = 'multisig-error-instead-of-false'
        if isinstance(got, tuple):
            key = 'multisig-stack-shape'
        ctx.violation(key, 'CHECK_MULTISIG verdict differs from the injective '
                      'matching model', case, want,
                      repr(exc)[:120] if exc else got)
    # _VERIFY form
    stv, excv = run(prog_for(keys, sigs, allowed, m, n, True, below),
                    dict(fields), plugin)
    if want is True:
        if excv is not None or stv != list(below):
            ctx.violation('multisig-verify-rejects', 'CHECK_MULTISIG_VERIFY '
                          'raised / left items on a valid quorum', case,
                          'no error', repr(excv)[:120] if excv
                          else [x.hex()[:20] for x in stv])
    elif excv is None:
        ctx.violation('multisig-verify-accepts', 'CHECK_MULTISIG_VERIFY did '
                      'not raise', case, 'error', [x.hex()[:20] for x in stv])
    kinds = case.get('kinds', [])
    valid_kinds = {'signer', 'flagvar'}
    if (any(k in valid_kinds for k in kinds)
            and any(k not in valid_kinds for k in kinds)) or (m == n and n):
        ctx.mark_nontrivial(dg((n, m, kinds, case.get('who'), allowed)))
    # order invariance
    if perms and want in (True, False) and n >= 2:
        kperms = list(itertools.permutations(range(n)))
        sperms = list(itertools.permutations(range(m)))
        rng = ctx.rng(('perm', repr(kinds), n, m))
        if n > 4:
            kperms = rng.sample(kperms, 12)
        if len(sperms) > 24:
            sperms = rng.sample(sperms, 24)
        combos = [(kp, sperms[0]) for kp in kperms[1:]] + \
                 [(kperms[0], sp) for sp in sperms[1:]]
        if len(combos) > 40:
            combos = rng.sample(combos, 40)
        for kp, sp in combos:
            k2 = [keys[i] for i in kp]
            s2 = [sigs[i] for i in sp]
            st2, exc2 = run(prog_for(k2, s2, allowed, m, n), dict(fields),
                            plugin)
            ctx.count('permutations_run')
            got2 = observe(st2, exc2, 0)
            if got2 != want:
                ctx.violation('multisig-order-dependent', 'verdict changes '
                              'under a permutation of keys / signatures',
                              dict(case, keys=k2, sigs=s2), want,
                              repr(exc2)[:100] if exc2 else got2)
                break
    return want


def specs_exhaustive(nmax, mmax):
    for n in range(1, nmax + 1):
        for m in range(0, min(n, mmax) + 2):
            alphabet = [(k, w) for k in ('signer',) for w in range(n)]
            alphabet += [('flagvar', w) for w in range(min(n, 2))]
            alphabet += [(k, 0) for k in ('dup', 'outsider', 'corrupt',
                                          'badlen', 'badflag')]
            for combo in itertools.combinations_with_replacement(
                    range(len(alphabet)), m):
                yield n, m, [alphabet[c] for c in combo]


def judge_item_limit(ctx, rng):
    """the message of a multisig check is built under the run's OWN item
    limit: a 2-of-3 quorum over a message longer than the default limit
    passes where the verifier raised the limit, and where the verifier
    lowered it below the message no signature is valid (CHECK_SIG raises), so
    the multisig check is not true either"""
    functions = env.mods()[0]
    seeds = [bytes(rng.getrandbits(8) for _ in range(32)) for _ in range(3)]
    keys = [sigmsg.pubkey(s_) for s_ in seeds]
    raised = rng.random() < 0.5
    size = 4096 if raised else 128
    total = rng.choice((1100, 2000, 3000) if raised else (129, 200, 300))
    fields = {'sigfield1': bytes(rng.getrandbits(8) for _ in range(16))
              * (total // 32), 'sigfield2': bytes(total - 16 * (total // 32))}
    msg = sigmsg.message(fields, 0)
    a, b = rng.sample(range(3), 2)
    sigs = [sigmsg.sign(seeds[a], msg), sigmsg.sign(seeds[b], msg)]
    case = {'kind': 'item-limit', 'item_size': size, 'seeds': seeds,
            'signers': [a, b], 'fields': fields}
    for verify in (False, True):
        prog = prog_for(keys, sigs, 0, 2, 3, verify)
        ctx.evaluated()
        ctx.count('runs_under_item_limit_' + ('raised' if raised
                                               else 'lowered'))
        try:
            _, stack, _ = functions.run_script(
                prog, dict(fields), stack_max_item_size=size)
            got = list(stack.deque)
        except BaseException as e:
            got = e
        ok_true = got == ([] if verify else [b'\xff'])
        if raised and not ok_true:
            ctx.violation('multisig-rejects-quorum', 'a valid 2-of-3 quorum '
                          f'over a {len(msg)}-byte message is refused under '
                          f'stack_max_item_size={size}', case, 'true',
                          repr(got)[:120])
        elif not raised and not isinstance(got, BaseException):
            ctx.violation('multisig-accepts', 'CHECK_MULTISIG'
                          + ('_VERIFY' if verify else '') + ' does not raise '
                          f'although the {len(msg)}-byte message cannot be '
                          f'built under stack_max_item_size={size} (CHECK_SIG '
                          'raises for every pair)', case, 'error',
                          repr(got)[:120])
        else:
            ctx.mark_nontrivial(dg(('item-limit', size, len(msg), verify,
                                    seeds[0])))


def run_shard(spec, ctx):
    functions, parsing, tools, _, _ = env.mods()
    i, of = spec['shard'], spec['of']
    rng = ctx.rng('main')
    tier = ctx.tier
    nmax, mmax = (3, 3) if tier == 'quick' else (4, 3)
    idx = 0
    for j in range(12 if tier == 'quick' else 300):
        judge_item_limit(ctx, ctx.rng(('item-limit', j)))
    for n, m, sp in specs_exhaustive(nmax, mmax):
        idx += 1
        if idx % of != i:
            continue
        # m may exceed n by one (ill-formed): the op then pulls m sigs, n keys
        allowed = rng.choice((0xff, 0x0f, 0x01, 0x00, rng.getrandbits(8)))
        fields = {f'sigfield{k}': bytes(rng.getrandbits(8) for _ in range(
            rng.choice((0, 1, 8, 40)))) for k in rng.sample(range(1, 9), 8)
            if rng.random() < 0.7}
        sp = list(sp)
        rng.shuffle(sp)
        plugin = (None, None, 'step', 'meter', 'append')[(idx // of) % 5]
        keys, sigs = build_case(rng, n, sp, allowed,
                                effective(fields, plugin))
        case = {'kind': 'ms', 'fields': fields, 'keys': keys, 'sigs': sigs,
                'allowed': allowed, 'm': m, 'n': n, 'plugin': plugin,
                'kinds': [k for k, _ in sp], 'who': [w for _, w in sp],
                'below': [b'\xaa'] if idx % 3 == 0 else []}
        judge(ctx, case)
        if idx % 400 == i:
            ctx.sample(case)
    ctx.exhaustive(f'signature-kind multisets for n<={nmax}, m<={mmax}+1')
    # random: n up to 5
    nr = 250 if tier == 'quick' else 6000
    for r in range(nr):
        n = rng.choice((2, 3, 4, 5, 5))
        m = rng.randrange(0, n + 1)
        sp = [(rng.choice(KINDS[:2] * 3 + KINDS), rng.randrange(n))
              for _ in range(m)]
        allowed = rng.choice((0xff, 0xf0, 0x03, 0x00, rng.getrandbits(8)))
        fields = {f'sigfield{k}': bytes(rng.getrandbits(8) for _ in range(
            rng.choice((0, 3, 32)))) for k in rng.sample(range(1, 9), 8)
            if rng.random() < 0.6}
        plugin = rng.choice((None, 'step', 'meter', 'append'))
        keys, sigs = build_case(rng, n, sp, allowed,
                                effective(fields, plugin))
        case = {'kind': 'ms', 'fields': fields, 'keys': keys, 'sigs': sigs,
                'allowed': allowed, 'm': m, 'n': n, 'plugin': plugin,
                'kinds': [k for k, _ in sp], 'who': [w for _, w in sp]}
        judge(ctx, case)
    # builder: make_multisig_lock + concatenated single-sig witnesses
    nb = 25 if tier == 'quick' else 400
    for r in range(nb):
        n = rng.randrange(1, 6)
        m = rng.randrange(1, n + 1)
        seeds = [bytes(rng.getrandbits(8) for _ in range(32)) for _ in range(n)]
        keys = [sigmsg.pubkey(s) for s in seeds]
        fields = {'sigfield1': b'a' * rng.randrange(1, 30),
                  'sigfield2': bytes(rng.getrandbits(8) for _ in range(9))}
        flags = rng.choice(('00', '01', '03'))
        lock = tools.make_multisig_lock(keys, m, flags)
        signers = rng.sample(range(n), m)
        scen = rng.choice(('ok', 'ok', 'one-short', 'dup-signer', 'outsider'))
        wseeds = [seeds[s] for s in signers]
        if scen == 'one-short':
            wseeds = wseeds[:-1]
        elif scen == 'dup-signer' and m >= 2:
            wseeds[-1] = wseeds[0]
        elif scen == 'outsider':
            wseeds[-1] = bytes(rng.getrandbits(8) for _ in range(32))
        elif scen != 'ok':
            scen = 'ok'
        wit = b''.join(bytes(tools.make_single_sig_witness(s, fields, flags))
                       for s in wseeds)
        got = functions.run_auth_scripts([wit, lock], dict(fields))
        want = scen == 'ok'
        ctx.evaluated()
        ctx.tab('builder_scenario', scen)
        if got != want:
            ctx.violation('multisig-lock-' + ('accepts' if got else 'rejects'),
                          f'make_multisig_lock {m}-of-{n} scenario {scen}',
                          {'kind': 'builder', 'seeds': seeds, 'm': m,
                           'wseeds': wseeds, 'fields': fields, 'flags': flags,
                           'scenario': scen}, want, got)
        elif scen != 'ok' or m == n:
            ctx.mark_nontrivial(dg(('b', n, m, scen, r, i)))


def finalize(agg, tier):
    out = []
    t = agg['tables'].get('expected', {})
    for k in ('True', 'False', 'not-true'):
        if not t.get(k):
            out.append(f'expected outcome {k} never generated')
    if not agg['counters'].get('permutations_run'):
        out.append('no permutation was run')
    return out


def replay(case, ctx):
    if case.get('kind') == 'item-limit':
        for j in range(12):
            judge_item_limit(ctx, ctx.rng(('item-limit', j)))
        return
    functions, parsing, tools, _, _ = env.mods()
    if case.get('kind') == 'builder':
        keys = [sigmsg.pubkey(s) for s in case['seeds']]
        lock = tools.make_multisig_lock(keys, case['m'], case['flags'])
        wit = b''.join(bytes(tools.make_single_sig_witness(
            s, case['fields'], case['flags'])) for s in case['wseeds'])
        got = functions.run_auth_scripts([wit, lock], dict(case['fields']))
        want = case['scenario'] == 'ok'
        ctx.evaluated()
        if got != want:
            ctx.violation('multisig-lock-' + ('accepts' if got else 'rejects'),
                          'make_multisig_lock scenario', case, want, got)
    else:
        judge(ctx, case)
