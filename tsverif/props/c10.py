"""C10 — integer and float encodings are exact inverses at every magnitude.

Runtime contracts (post-conditions evaluated on every call) are wrapped around
the real int_to_bytes / bytes_to_int / uint_to_bytes / float_to_bytes /
bytes_to_float / bytes_to_bool, then the real functions are driven by the
value workload and — with the contracts still on — by the arithmetic
instructions run through run_script, whose results are compared with Python
big-int / exact float32 arithmetic on independently decoded operands.
"""
from __future__ import annotations
import hashlib
import math
import struct

from .. import env, instr

ID = 'C10'
RULE = ('cases = ints (exhaustive [-2^17,2^17]; 2^k+d, |d|<=3, both signs; '
        'random up to 8192 bits), all 1-/2-byte strings, float32 bit patterns '
        'per exponent x sign x mantissa sample, arithmetic instructions on the '
        'same values; distinct = by value/bit pattern (and op for instruction '
        'cases); non-trivial = |n| >= 2^53 or within 3 of a power of 256, or a '
        'non-finite / subnormal / NaN float pattern, or an instruction case '
        'with such an operand'
        ' [plus operands up to 2^520000 under tight item limits, count-producing instructions (SIZE, DEPTH, READ_CACHE_SIZE) around byte and sign boundaries, and decimal LITERALS assembled and decoded (push / push1 / push2 / div_int / mod_int d<n>, n up to 8192 bits)]')
ASSUMPTIONS = [
    'Python int arithmetic and int.from_bytes(signed=True) are the reference',
    'IEEE-754 binary32 decoded by hand (sign/exponent/mantissa) is the float '
    'reference',
    'minimality of the integer encoding is not required by the property and '
    'is only reported as a statistic',
]

KMAX = {'quick': 2048, 'thorough': 16384}
NRAND = {'quick': 20_000, 'thorough': 4_000_000}
NSH = 16


def shards(tier, seed):
    out = []
    for i in range(NSH):
        out.append({'shard': i, 'of': NSH})
    return out


# ---------------------------------------------------------------- reference

def ref_f32(b: bytes):
    """IEEE-754 binary32 -> Python float (exact), by hand."""
    u = int.from_bytes(b, 'big')
    sign = -1.0 if u >> 31 else 1.0
    e = (u >> 23) & 0xff
    m = u & 0x7fffff
    if e == 255:
        return sign * math.inf if m == 0 else math.nan
    if e == 0:
        return sign * math.ldexp(m, -149)
    return sign * math.ldexp(m | 0x800000, e - 150)


def sdec(b: bytes) -> int:
    return int.from_bytes(b, 'big', signed=True)


def menc(n: int) -> bytes:
    """minimal two's complement (used to build operands)."""
    ln = 1
    while True:
        try:
            return n.to_bytes(ln, 'big', signed=True)
        except OverflowError:
            ln += 1 if ln < 16 else max(1, ln // 8)


def menc_fast(n: int) -> bytes:
    ln = (n.bit_length() if n >= 0 else (~n).bit_length()) // 8 + 1
    return n.to_bytes(ln, 'big', signed=True)


def is_nt_int(n: int) -> bool:
    a = abs(n)
    if a >= 1 << 53:
        return True
    for d in range(-3, 4):
        v = a + d
        if v > 0 and v & (v - 1) == 0 and (v.bit_length() - 1) % 8 == 0:
            return True
    return False


def dg(tag: bytes, payload: bytes) -> bytes:
    return hashlib.blake2b(tag + payload, digest_size=8).digest()


# ---------------------------------------------------------------- contracts

class State:
    ctx = None
    cur = None     # the case being driven (for violation reports)


def _viol(key, what, expected=None, observed=None):
    State.ctx.violation(key, what, State.cur, expected, observed)


def post_int_to_bytes(a, kw, r, exc):
    n = a[0] if a else kw.get('number')
    if type(n) is not int:
        return
    State.ctx.count('contract.int_to_bytes')
    if exc is not None:
        _viol('int-encode-raises', f'int_to_bytes raised {type(exc).__name__} '
              f'for an int of {n.bit_length()} bits', 'bytes',
              f'{type(exc).__name__}: {exc}')
        return
    if type(r) is not bytes or len(r) < 1:
        _viol('int-encode-not-bytes', 'int_to_bytes result is not a non-empty '
              'bytes', 'bytes', repr(r)[:80])
        return
    if sdec(r) != n:
        _viol('int-encode-wrong-value',
              f'int_to_bytes({_short(n)}) does not decode to n as big-endian '
              "two's complement", _short(n), r.hex()[:80])
    if (r[0] >> 7) != (1 if n < 0 else 0):
        _viol('int-encode-sign-bit', f'top bit of the encoding of {_short(n)} '
              'does not match its sign', int(n < 0), r[0] >> 7)
    if len(r) != len(menc_fast(n)):
        State.ctx.count('stat.nonminimal_encodings')


def post_bytes_to_int(a, kw, r, exc):
    b = a[0] if a else kw.get('number')
    if type(b) is not bytes or len(b) == 0:
        return
    State.ctx.count('contract.bytes_to_int')
    if exc is not None:
        _viol('int-decode-raises', f'bytes_to_int raised {type(exc).__name__} '
              f'on a {len(b)}-byte string', 'int', repr(exc)[:80])
        return
    if type(r) is not int or r != sdec(b):
        _viol('int-decode-wrong-value', 'bytes_to_int disagrees with '
              "big-endian two's complement", _short(sdec(b)), _short(r))


def post_uint_to_bytes(a, kw, r, exc):
    n = a[0] if a else kw.get('number')
    if type(n) is not int or n < 0:
        return
    State.ctx.count('contract.uint_to_bytes')
    if exc is not None:
        _viol('uint-encode-raises', 'uint_to_bytes raised on a non-negative '
              'int', 'bytes', repr(exc)[:80])
        return
    if type(r) is not bytes or int.from_bytes(r, 'big') != n:
        _viol('uint-encode-wrong-value', 'uint_to_bytes does not decode '
              'unsigned to n', _short(n), repr(r)[:80])


def post_bytes_to_float(a, kw, r, exc):
    b = a[0] if a else kw.get('number')
    if type(b) is not bytes or len(b) != 4:
        return
    State.ctx.count('contract.bytes_to_float')
    if exc is not None:
        _viol('float-decode-raises', 'bytes_to_float raised on a 4-byte '
              'string', 'float', repr(exc)[:80])
        return
    want = ref_f32(b)
    if type(r) is not float or not (r == want or (r != r and want != want)):
        _viol('float-decode-wrong-value', f'bytes_to_float({b.hex()})',
              repr(want), repr(r))
    elif r == 0.0 and math.copysign(1, r) != math.copysign(1, want):
        _viol('float-decode-wrong-value', f'bytes_to_float({b.hex()}) sign of '
              'zero', repr(want), repr(r))


def f32_representable(x: float) -> bool:
    if x != x or x in (math.inf, -math.inf):
        return True
    try:
        return struct.unpack('>f', struct.pack('>f', x))[0] == x
    except OverflowError:
        return False


def post_float_to_bytes(a, kw, r, exc):
    x = a[0] if a else kw.get('number')
    if type(x) is not float or not f32_representable(x):
        return
    State.ctx.count('contract.float_to_bytes')
    if exc is not None:
        _viol('float-encode-raises', 'float_to_bytes raised on a float32 '
              'value', 'bytes', repr(exc)[:80])
        return
    if type(r) is not bytes or len(r) != 4:
        _viol('float-encode-not-4-bytes', 'float_to_bytes result is not 4 '
              'bytes', '4 bytes', repr(r))
        return
    back = ref_f32(r)
    if x != x:
        if back == back:
            _viol('float-encode-wrong-value', 'NaN encoded as a number',
                  'NaN pattern', r.hex())
    elif back != x or math.copysign(1, back) != math.copysign(1, x):
        _viol('float-encode-wrong-value', f'float_to_bytes({x!r}) decodes to '
              'another value', repr(x), r.hex())


def post_bytes_to_bool(a, kw, r, exc):
    b = a[0] if a else kw.get('val')
    if type(b) is not bytes:
        return
    State.ctx.count('contract.bytes_to_bool')
    want = any(b)
    if exc is not None or r is not want:
        _viol('bool-decode-wrong', f'bytes_to_bool({b.hex()[:40]})', want,
              repr(exc) if exc else r)


def _short(n):
    if isinstance(n, int):
        h = hex(n)
        return h if len(h) <= 70 else f'{h[:40]}..({n.bit_length()} bits)'
    return repr(n)[:80]


def install(ctx):
    functions, parsing, tools, classes, errors = env.mods()
    import tapescript
    State.ctx = ctx
    mods = [functions, parsing, tools, tapescript]
    cs = []
    for name, post in (
            ('int_to_bytes', post_int_to_bytes),
            ('bytes_to_int', post_bytes_to_int),
            ('uint_to_bytes', post_uint_to_bytes),
            ('bytes_to_float', post_bytes_to_float),
            ('float_to_bytes', post_float_to_bytes),
            ('bytes_to_bool', post_bytes_to_bool)):
        cs.append(instr.Contract(mods, name, post).install())
    return cs


# ---------------------------------------------------------------- workload

def _push(b: bytes) -> bytes:
    if len(b) < 256:
        return b'\x03' + bytes([len(b)]) + b
    return b'\x04' + len(b).to_bytes(2, 'big') + b


OPC = {}


def _opc():
    if not OPC:
        functions = env.mods()[0]
        for c, (name, _) in functions.opcodes.items():
            OPC[name] = c
    return OPC


def literal_value(ctx, n: int) -> None:
    """the VM encoding of n as the ASSEMBLER produces it for the decimal
    literal d<n> (generic push, explicit PUSH1 / PUSH2, DIV_INT / MOD_INT
    operands): decoding the operand gives n back"""
    from ..ref import asm, isa
    parsing = env.mods()[1]
    size = (n.bit_length() + 8) // 8
    forms = ['push d{}']
    if size <= 255:
        forms += ['push1 d{}', 'op_push1 d{}', 'div_int d{}', 'mod_int d{}']
    if size <= 65535:
        forms += ['push2 d{}']
    for form in forms:
        src = form.format(n)
        ctx.evaluated()
        ctx.tab('literal_form', form.split()[0])
        try:
            code = parsing.compile_script(src)
        except BaseException as e:
            ctx.tab('literal_rejected', type(e).__name__)
            continue
        try:
            nodes = asm.disassemble(code)
            v = nodes[0][2]
            v = bytes([v]) if isinstance(v, int) else v
            got = isa.int_dec(v) if len(nodes) == 1 and v else None
        except BaseException:
            got = None
        if got != n:
            ctx.violation('literal-decodes-differently', f'`{src[:60]}` is '
                          'assembled with an operand that does not decode to '
                          'the integer written', {'kind': 'literal',
                                                  'n_hex': hex(n)},
                          hex(n)[:80], code.hex()[:80])
            return
    if n.bit_length() > 53:
        ctx.mark_nontrivial(dg(b'literal', hex(n).encode()))
    ctx.count('literals_assembled_and_decoded')


def cache_value(ctx, v) -> None:
    """the VM encoding of a number the EMBEDDER supplies (a Python int or
    float under a str cache key, read with GET_VALUE): decoding gives the
    number back, bit-exactly for floats"""
    functions = env.mods()[0]
    ctx.evaluated()
    ctx.tab('cache_value_type', type(v).__name__)
    try:
        _, stack, _ = functions.run_script(
            bytes([o_('OP_GET_VALUE'), 1]) + b'a', {'a': v},
            stack_max_item_size=4096)
        st = list(stack.deque)
    except BaseException as e:
        st = repr(e)[:80]
    if type(v) is int:
        from ..ref import isa
        ok = isinstance(st, list) and len(st) == 1 and st[0] \
            and isa.int_dec(st[0]) == v \
            and (st[0][0] >= 0x80) == (v < 0)
    else:
        ok = isinstance(st, list) and len(st) == 1 \
            and st[0] == struct.pack('>f', v)
    if not ok:
        ctx.violation('cache-number-encoded-wrongly', f'GET_VALUE of the '
                      f'{type(v).__name__} {v!r} does not put its VM '
                      'encoding', {'kind': 'cache-value', 'v': repr(v)},
                      repr(v), [x.hex() for x in st] if isinstance(st, list)
                      else st)
    else:
        ctx.count('cache_numbers_read_back')


def o_(name):
    from ..ref import isa
    return isa.CODE[name]


def int_value(ctx, n: int, deep: bool) -> None:
    """drive the codec on one integer (contracts judge)."""
    functions = env.mods()[0]
    State.cur = {'kind': 'int', 'n_hex': hex(n)}
    ctx.evaluated()
    try:
        b = functions.int_to_bytes(n)
    except BaseException:
        return
    if type(b) is bytes and len(b):
        try:
            back = functions.bytes_to_int(b)
        except BaseException:
            back = None
        if back != n:
            _viol('int-roundtrip', 'bytes_to_int(int_to_bytes(n)) != n',
                  _short(n), _short(back))
    if n >= 0:
        try:
            functions.uint_to_bytes(n)
        except BaseException:
            pass
    if is_nt_int(n):
        ctx.mark_nontrivial(dg(b'i', hex(n).encode()))
        ctx.count('nontrivial.int_values')


def bytes_value(ctx, b: bytes) -> None:
    functions = env.mods()[0]
    State.cur = {'kind': 'bytes', 'b': b}
    ctx.evaluated()
    try:
        n = functions.bytes_to_int(b)
        functions.bytes_to_bool(b)
    except BaseException:
        return
    try:
        b2 = functions.int_to_bytes(n)
        if functions.bytes_to_int(b2) != n:
            _viol('int-roundtrip', 'decode/encode/decode changed the value',
                  _short(n), b2.hex()[:80])
    except BaseException:
        pass


def float_pattern(ctx, u: int) -> None:
    functions = env.mods()[0]
    b = u.to_bytes(4, 'big')
    State.cur = {'kind': 'float', 'b': b}
    ctx.evaluated()
    try:
        x = functions.bytes_to_float(b)
    except BaseException:
        return
    e = (u >> 23) & 0xff
    nan = e == 255 and (u & 0x7fffff)
    try:
        b2 = functions.float_to_bytes(x)
    except BaseException:
        return
    if nan:
        u2 = int.from_bytes(b2, 'big') if type(b2) is bytes and len(b2) == 4 else 0
        if not ((u2 >> 23) & 0xff == 255 and u2 & 0x7fffff):
            _viol('float-roundtrip-nan', 'NaN-ness lost in the round trip',
                  'NaN', repr(b2))
    elif b2 != b:
        _viol('float-roundtrip', 'float_to_bytes(bytes_to_float(b)) != b',
              b.hex(), repr(b2))
    if e in (0, 255):
        ctx.mark_nontrivial(dg(b'f', b))
        ctx.count('nontrivial.float_patterns')


def run_prog(prog: bytes, size: int = 70_000):
    functions, _, _, _, errors = env.mods()
    try:
        _, stack, _ = functions.run_script(
            prog, {}, stack_max_item_size=size)
        return list(stack.deque), None
    except BaseException as e:
        return None, e


def int_instr(ctx, rng, a: int, b: int) -> None:
    """arithmetic / comparison instructions on (a, b): b is pushed last (top)."""
    o = _opc()
    ea, eb = menc_fast(a), menc_fast(b)
    # sometimes feed a non-minimal (sign-extended) operand
    if rng.random() < 0.2:
        ea = (b'\xff' if a < 0 else b'\x00') * rng.randrange(1, 4) + ea
    if len(ea) > 65535 or len(eb) > 65535:
        ctx.count('skipped.operand_over_push2_size')
        return
    base = _push(ea) + _push(eb)
    nt = is_nt_int(a) or is_nt_int(b)

    def chk(name, prog, want, key, tight=False):
        State.cur = {'kind': 'instr', 'op': name, 'a_hex': hex(a),
                     'b_hex': hex(b), 'prog': prog if len(prog) < 300 else
                     prog[:300], 'tight': tight}
        ctx.evaluated()
        ctx.tab('instr', name + ('/tight-limit' if tight else ''))
        if tight:
            # the smallest item limit under which operands and result fit:
            # "any magnitude that fits the item limit"
            # (+1: the integer encoder may spend one sign-extension byte on
            # values just below a power of 256 - counted, not judged)
            need = max(len(ea), len(eb), 1 if isinstance(want, bool)
                       else len(menc_fast(want)) + 1)
            st, exc = run_prog(prog, need)
            key += '-tight-limit'
        else:
            st, exc = run_prog(prog)
        if want is None:
            if exc is None:
                _viol(key + '-no-error', f'{name} must raise', 'error',
                      [x.hex()[:60] for x in st])
            return
        if exc is not None:
            _viol(key + '-raised', f'{name} raised {type(exc).__name__} on '
                  'valid operands', _short(want), repr(exc)[:100])
            return
        if len(st) != 1:
            _viol(key + '-stack', f'{name} left {len(st)} items', 1, len(st))
            return
        if isinstance(want, bool):
            got = st[0] == b'\xff' if st[0] in (b'\xff', b'\x00') else None
            if got is not want:
                _viol(key, f'{name} wrong truth value', want, st[0].hex())
        elif sdec(st[0]) != want:
            _viol(key, f'{name} result is not the exact integer',
                  _short(want), _short(sdec(st[0])))
        if nt:
            ctx.mark_nontrivial(dg(name.encode(), hex(a).encode() + b'|' +
                                   hex(b).encode()))

    chk('ADD_INTS', base + bytes([o['OP_ADD_INTS'], 2]), a + b, 'add')
    # the count byte is part of the arithmetic: the sum of NO items is 0 and
    # leaves what lies below alone, the sum of one item is that item
    if len(ea) < 1000 and len(eb) < 1000:
        for cnt, want_top in ((0, [a, b, 0]), (1, [a, b])):
            State.cur = {'kind': 'instr', 'op': 'ADD_INTS', 'a_hex': hex(a),
                         'b_hex': hex(b), 'count': cnt}
            ctx.evaluated()
            ctx.tab('instr', f'ADD_INTS/count-{cnt}')
            st, exc = run_prog(base + bytes([o['OP_ADD_INTS'], cnt]))
            if exc is not None or [sdec(x) for x in st] != want_top:
                _viol(f'add-count-{cnt}', f'ADD_INTS with count {cnt} over '
                      'two items', [_short(x) for x in want_top],
                      repr(exc)[:80] if exc else
                      [_short(sdec(x)) for x in st])
    chk('SUBTRACT_INTS', base + bytes([o['OP_SUBTRACT_INTS'], 2]), b - a, 'sub')
    if a.bit_length() + b.bit_length() < 500_000:
        chk('MULT_INTS', base + bytes([o['OP_MULT_INTS'], 2]), a * b, 'mult')
    if a.bit_length() + b.bit_length() < 500_000:
        chk('ADD_INTS', base + bytes([o['OP_ADD_INTS'], 2]), a + b, 'add',
            True)
        chk('SUBTRACT_INTS', base + bytes([o['OP_SUBTRACT_INTS'], 2]), b - a,
            'sub', True)
        chk('MULT_INTS', base + bytes([o['OP_MULT_INTS'], 2]), a * b, 'mult',
            True)
        if a != 0 and (b % a == 0 or (a > 0) == (b >= 0)):
            chk('DIV_INTS', base + bytes([o['OP_DIV_INTS']]), b // a, 'div',
                True)
            chk('MOD_INTS', base + bytes([o['OP_MOD_INTS']]), b % a, 'mod',
                True)
    chk('LESS', base + bytes([o['OP_LESS']]), b < a, 'less')
    chk('LESS_OR_EQUAL', base + bytes([o['OP_LESS_OR_EQUAL']]), b <= a, 'leq')
    # top / second ; judged when the documents determine the result
    if a == 0:
        chk('DIV_INTS', base + bytes([o['OP_DIV_INTS']]), None, 'div0')
        chk('MOD_INTS', base + bytes([o['OP_MOD_INTS']]), None, 'mod0')
    elif b % a == 0 or (a > 0) == (b >= 0):
        chk('DIV_INTS', base + bytes([o['OP_DIV_INTS']]), b // a, 'div')
        chk('MOD_INTS', base + bytes([o['OP_MOD_INTS']]), b % a, 'mod')
        if len(ea) < 256:
            chk('DIV_INT', _push(eb) + bytes([o['OP_DIV_INT'], len(ea)]) + ea,
                b // a, 'div1')
            chk('MOD_INT', _push(eb) + bytes([o['OP_MOD_INT'], len(ea)]) + ea,
                b % a, 'mod1')
    else:
        ctx.count('skipped.div_sign_unspecified')
    # int -> float where exactly representable
    for v, ev in ((a, ea),):
        try:
            fx = float(v)
            exact = int(fx) == v and f32_representable(fx)
        except OverflowError:
            exact = False
        if exact:
            State.cur = {'kind': 'instr', 'op': 'INT_TO_FLOAT', 'a_hex': hex(v)}
            ctx.evaluated()
            ctx.tab('instr', 'INT_TO_FLOAT')
            st, exc = run_prog(_push(ev) + bytes([o['OP_INT_TO_FLOAT']]))
            if exc is not None or len(st) != 1 or len(st[0]) != 4 \
                    or ref_f32(st[0]) != fx:
                _viol('int-to-float', 'INT_TO_FLOAT on an exactly '
                      'representable int', repr(fx),
                      repr(exc) if exc else [x.hex() for x in st])
            else:
                st, exc = run_prog(_push(st[0]) + bytes([o['OP_FLOAT_TO_INT']]))
                ctx.tab('instr', 'FLOAT_TO_INT')
                if exc is not None or len(st) != 1 or sdec(st[0]) != v:
                    _viol('float-to-int', 'FLOAT_TO_INT of an integral float',
                          _short(v), repr(exc) if exc else st[0].hex())


def counting_instr(ctx, rng) -> None:
    """instructions that PRODUCE an integer from a count (SIZE of an item,
    DEPTH of the stack, sizes of cache entries): the item they push decodes to
    exactly that count - around every byte / sign boundary"""
    o = _opc()

    def expect(name, prog, want, size=70_000, items=1024):
        State.cur = {'kind': 'counting', 'op': name, 'n': want,
                     'prog': prog if len(prog) < 200 else prog[:200]}
        ctx.evaluated()
        ctx.tab('instr', name)
        functions = env.mods()[0]
        try:
            _, stack, _ = functions.run_script(
                prog, {}, stack_max_item_size=size, stack_max_items=items)
            st, exc = list(stack.deque), None
        except BaseException as e:
            st, exc = None, e
        if exc is not None or not st:
            _viol('count-instr-raised', f'{name} for count {want} raised',
                  want, repr(exc)[:100])
        elif sdec(st[-1]) != want:
            _viol('count-instr-wrong', f'{name}: the pushed item does not '
                  f'decode to the count {want}', want,
                  f'{st[-1].hex()} = {sdec(st[-1])}')
        else:
            ctx.mark_nontrivial(dg(name.encode(), str(want).encode()))
    for n in (0, 1, 2, 126, 127, 128, 129, 200, 254, 255, 256, 257, 1023,
              1024, 32767, 32768, 32769, 65535, rng.randrange(128, 256),
              rng.randrange(32768, 65536)):
        item = bytes([rng.getrandbits(8) or 1]) * n
        push = _push(item) if n else b'\x03\x00'
        expect('SIZE', push + bytes([o['OP_SIZE']]), n)
    for n in (0, 1, 127, 128, 129, 200, 255, 256, 257, 1000, 1023):
        # OP_COPY makes n copies of one item cheaply
        prog = b''
        left = n
        if n:
            prog = b'\x01'
            left -= 1
            while left:
                k = min(left, 255)
                prog += bytes([o['OP_COPY'], k])
                left -= k
        expect('DEPTH', prog + bytes([o['OP_DEPTH']]), n, items=2048)
    for n in (1, 127, 128, 129, 255):
        items = b''.join(_push(b'\x07') for _ in range(n))
        wr = bytes([o['OP_WRITE_CACHE'], 1]) + b'k' + bytes([n])
        expect('READ_CACHE_SIZE', items + wr + bytes([o['OP_READ_CACHE_SIZE'],
                                                     1]) + b'k', n)


def float_instr(ctx, u: int) -> None:
    o = _opc()
    b = u.to_bytes(4, 'big')
    x = ref_f32(b)
    State.cur = {'kind': 'instr', 'op': 'FLOAT_TO_INT', 'b': b}
    ctx.evaluated()
    st, exc = run_prog(_push(b) + bytes([o['OP_FLOAT_TO_INT']]))
    ctx.tab('instr', 'FLOAT_TO_INT')
    if x != x or x in (math.inf, -math.inf):
        if exc is None:
            _viol('float-to-int-nonfinite', 'FLOAT_TO_INT of NaN/inf must '
                  'raise', 'error', [i.hex() for i in st])
    elif x == int(x):
        if exc is not None or len(st) != 1 or sdec(st[0]) != int(x):
            _viol('float-to-int', 'FLOAT_TO_INT of an integral float',
                  _short(int(x)), repr(exc) if exc else st[0].hex())
    # FLOAT_LESS on (x, x): never true; FLEQ: true unless NaN
    st, exc = run_prog(_push(b) + _push(b) + bytes([o['OP_FLOAT_LESS']]))
    ctx.tab('instr', 'FLOAT_LESS')
    if exc is None and st != [b'\x00']:
        _viol('float-less-self', 'x < x must be false', '00',
              [i.hex() for i in st])


# ---------------------------------------------------------------- shard

def run_shard(spec, ctx):
    contracts = install(ctx)
    i, of = spec['shard'], spec['of']
    tier = ctx.tier
    rng = ctx.rng('main')

    # (1) exhaustive small ints, split by residue
    lo, hi = -(1 << 17), (1 << 17)
    for n in range(lo + i, hi + 1, of):
        int_value(ctx, n, False)
    ctx.exhaustive('all integers in [-2^17, 2^17]')

    # (2) 2^k + d
    kmax = KMAX[tier]
    for k in range(i, kmax + 1, of):
        for d in range(-3, 4):
            for sgn in (1, -1):
                int_value(ctx, sgn * ((1 << k) + d), True)
    ctx.exhaustive(f'2^k+d for k<={kmax}, |d|<=3, both signs')

    # (3) random ints up to 8192 bits
    nrand = NRAND[tier] // of
    big = []
    for j in range(nrand):
        bits = rng.choice((8, 16, 31, 32, 53, 54, 63, 64, 65, 127, 128, 256,
                           512, 1024, 2048, 4096, 8192,
                           rng.randrange(1, 8193)))
        n = rng.getrandbits(bits)
        if rng.random() < 0.5:
            n = -n
        int_value(ctx, n, True)
        if j < 600 if tier == 'quick' else j < 6000:
            big.append(n)
            literal_value(ctx, n)
    for k in range(i, 2049, of):
        for d in (-1, 0, 1):
            for sgn in (1, -1):
                literal_value(ctx, sgn * ((1 << k) + d))
    # numbers the embedder supplies through the cache
    for v in list(range(-3, 4)) + [127, 128, 255, 256, -128, -129] + big[:40]:
        cache_value(ctx, v)
    for fv in (0.0, -0.0, 1.0, -1.0, 2.0, 0.5, 1.5, -2.5, 3.0, 255.0, 1e10,
               float(2 ** 24), -float(2 ** 24 + 2), 1.401298464324817e-45):
        if struct.unpack('>f', struct.pack('>f', fv))[0] == fv:
            cache_value(ctx, fv)

    # (4) all 1- and 2-byte strings (+ random longer strings)
    for u in range(i, 256, of):
        bytes_value(ctx, bytes([u]))
    for u in range(i, 65536, of):
        bytes_value(ctx, u.to_bytes(2, 'big'))
    ctx.exhaustive('all 1- and 2-byte strings')
    for j in range(nrand // 4):
        ln = rng.choice((3, 4, 7, 8, 9, 16, 32, 33, 64, 255, 256, 1024))
        b = bytes(rng.getrandbits(8) for _ in range(min(ln, 64)))
        b = b + b'\x00' * (ln - len(b))
        if rng.random() < 0.3:
            b = rng.choice((b'\x00', b'\xff', b'\x80', b'\x7f')) + b[1:]
        bytes_value(ctx, b)

    # (5) float patterns
    if tier == 'quick':
        mants = [0, 1, 2, 0x7fffff, 0x7ffffe, 0x400000, 0x3fffff, 0x400001]
        mants += [rng.getrandbits(23) for _ in range(56)]
        for e in range(i, 256, of):
            for s in (0, 1):
                for m in mants:
                    float_pattern(ctx, (s << 31) | (e << 23) | m)
        ctx.exhaustive('every float32 exponent x sign x 64 mantissas')
    else:
        # 2^24 patterns: every exponent x sign x 2^15 mantissas
        mants = [0, 1, 2, 0x7fffff, 0x7ffffe, 0x400000, 0x3fffff, 0x400001]
        for e in range(i, 256, of):
            for s in (0, 1):
                top = (s << 31) | (e << 23)
                for m in mants:
                    float_pattern(ctx, top | m)
                for m in range(rng.randrange(256), 1 << 23, 256):
                    float_pattern(ctx, top | m)
        ctx.exhaustive('every float32 exponent x sign x 2^15 mantissas')

    # (6) instructions on the same values
    edge = [0, 1, -1, 127, 128, -128, -129, 255, 256, 32767, 32768, -32768,
            -32769, (1 << 53) + 1, -(1 << 63), (1 << 63), (1 << 64) - 1,
            (1 << 255) - 19, -(1 << 255), (1 << 2040) - 1, -(1 << 2047),
            (1 << 2047), (1 << 4096) + 3,
            # past CPython's 4300-decimal-digit int <-> str limit (2^14284)
            # and on to the largest item run_prog admits
            (1 << 14283) + 7, (1 << 14285) - 3, -(1 << 14290) + 1,
            (1 << 16384), -(1 << 16383) - 1, (1 << 20_001) + 1,
            (1 << 100_003) + 11, -(1 << 400_000) + 5, (1 << 520_000) - 1]
    pool = edge + big
    ninstr = len(pool)
    for j in range(ninstr):
        a = pool[j]
        b = rng.choice(pool) if rng.random() < 0.7 else rng.choice(edge)
        if rng.random() < 0.3:
            b = a * rng.randrange(-5, 6)     # exact divisions
            a = a if a else 3
        int_instr(ctx, rng, a, b)
    counting_instr(ctx, rng)
    fl = [0, 0x80000000, 0x7f800000, 0xff800000, 0x7fc00000, 0x00000001,
          0x007fffff, 0x00800000, 0x7f7fffff, 0x4b7fffff, 0x4b800000,
          0xcb000001, 0x3f800000, 0xbf800000, 0x4f000000, 0xcf000000]
    for u in fl + [rng.getrandbits(32) for _ in range(300)]:
        float_instr(ctx, u)

    for c in contracts:
        ctx.count('contract_calls.' + c.name, c.calls)
        c.remove()
    ctx.sample({'kind': 'int', 'n_hex': hex(-(1 << 63) - 1)})
    ctx.sample(State.cur)


def finalize(agg, tier):
    out = []
    c = agg['counters']
    for name in ('contract.int_to_bytes', 'contract.bytes_to_int',
                 'contract.bytes_to_float', 'contract.float_to_bytes'):
        if c.get(name, 0) == 0:
            out.append(f'contract {name} was never evaluated')
    if c.get('literals_assembled_and_decoded', 0) < 1000:
        out.append('fewer than 1000 decimal literals assembled and decoded')
    return out


def replay(case, ctx):
    install(ctx)
    functions = env.mods()[0]
    k = case.get('kind')
    if k == 'int':
        int_value(ctx, int(case['n_hex'], 16), True)
    elif k == 'cache-value':
        cache_value(ctx, eval(case['v'], {'__builtins__': {}}, {}))
    elif k == 'literal':
        literal_value(ctx, int(case['n_hex'], 16))
    elif k == 'bytes':
        bytes_value(ctx, case['b'])
    elif k == 'float':
        float_pattern(ctx, int.from_bytes(case['b'], 'big'))
        float_instr(ctx, int.from_bytes(case['b'], 'big'))
    elif k == 'instr':
        if 'a_hex' in case and 'b_hex' in case:
            int_instr(ctx, ctx.rng('replay'), int(case['a_hex'], 16),
                      int(case['b_hex'], 16))
        elif 'a_hex' in case:
            int_instr(ctx, ctx.rng('replay'), int(case['a_hex'], 16), 1)
        else:
            float_instr(ctx, int.from_bytes(case['b'], 'big'))
