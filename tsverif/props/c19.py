"""C19 — extension registries behave as sets; runs do not leak state.

Histories of API calls (add / remove / reset / run / compile over plugins in two
scopes, contracts, contract interfaces and aliases) are replayed against a
sequential set model. After every step the registries are probed behaviourally
(recording plugins fired by GET_MESSAGE / CHECK_TEMPLATE, INVOKE per contract
id, add_contract of an object satisfying only interface X, compile of an
alias), a fixed battery of compiles and runs is compared with the battery run
on registries brought to the same contents by a minimal add sequence (history
independence; a sample of content keys is also computed in a *fresh process*),
and the caller's dictionaries are compared with their snapshots. Every
violation is re-validated in a fresh process before it is reported.
"""
from __future__ import annotations
import copy
import hashlib
import itertools
import os
import subprocess
import sys
import tempfile
from typing import Protocol, runtime_checkable

from .. import env, jsonx
from ..ref import sigmsg
from ..ref import isa

ID = 'C19'
RULE = ('histories over {add, remove, reset, run, compile} x 3 plugins x 2 '
        'scopes x 2 contracts (+ replacement) x 2 interfaces x 2 aliases: '
        'bounded-exhaustive per registry family up to length 4 (quick) / 5 '
        '(thorough: plugins 5, others 6), cross-family random histories up to '
        'length 40; compile_script, and assemble / parse_comptime called as '
        'the docs show them (macro table omitted). distinct = by history; '
        'non-trivial = >= 2 entries live in one scope at some point, or a run '
        '/ probe after a remove or reset'
        ' [plus a third, application-made plugin scope (absent until the first add; plugin histories strided at the longest length), aliases probed in ten block positions, CHECK_TEMPLATE / SIGN / CHECK_SIG / CHECK_MULTISIG under default flags firing exactly the active extensions, caller-dictionary monitoring, a falsy contract, a bound-method plugin]')
ASSUMPTIONS = [
    'registries are process-global; the harness clears them between '
    'histories through their own containers and re-validates every violation '
    'in a fresh process',
    'aliases have no remove operation: histories only add them',
]
NSH = 16
O = isa.op
# two scopes the module creates itself and one an application makes up (it
# does not exist until the first add_plugin names it)
SCOPES = ('signature_extensions', 'check_template', 'app_scope')
FIELDS = {'sigfield1': b'hello', 'sigfield2': b'w'}
CIDS = {'c1': b'\x01' * 4, 'c2': b'\x02' * 4}
ALIASES = {'QQDUP': 'OP_DUP', 'ZZSHA': 'OP_SHA256'}
# a second registration of the same alias, spelled in lower case, for ANOTHER
# instruction: the alias that is active stays what it is ("already in use")
ALT = {'QQDUP': 'OP_SHA256', 'ZZSHA': 'OP_DUP'}


def shards(tier, seed):
    return [{'shard': i, 'of': NSH} for i in range(NSH)]


# ------------------------------------------------------------- fixtures

class Fired:
    log: list = []


def _mk_plugin(name):
    def plugin(tape, stack, cache):
        Fired.log.append(name)
        return True
    plugin.__name__ = name
    return plugin


class _Recorder:
    """a plugin that is a BOUND METHOD: every `obj.fire` is a new object that
    is == to the others but not identical to them"""

    def __init__(self, name):
        self.name = name

    def fire(self, tape, stack, cache):
        Fired.log.append(self.name)
        return True


class _Plugins(dict):
    """p1, p2: plain functions; p3: a bound method, handed over through a
    fresh reference at every add / remove (as `obj.method` always is)"""

    def __getitem__(self, k):
        if k == 'p3':
            return _P3.fire
        return dict.__getitem__(self, k)


_P3 = _Recorder('p3')
PLUGINS = _Plugins({n: _mk_plugin(n) for n in ('p1', 'p2')})
PLUGINS['p3'] = None            # the key exists; the value is made on access


class Contract:
    def __init__(self, tag):
        self.tag = tag

    def abi(self, args):
        return [self.tag]


class LedgerContract(dict):
    """a contract kept in a dict subclass: with no entries yet it is FALSY
    (bool(obj) is False), and it is a registered contract all the same"""

    tag = b'B'

    def abi(self, args):
        return [self.tag]


CONTRACTS = {'A': Contract(b'A'), 'B': LedgerContract()}


@runtime_checkable
class IfaceA(Protocol):
    def only_a(self):
        ...


def _local_interface():
    """an interface declared in a local scope, as applications often do:
    its __qualname__ ('_local_interface.<locals>.IfaceB') differs from its
    __name__"""
    @runtime_checkable
    class IfaceB(Protocol):
        def only_b(self):
            ...
    return IfaceB


IfaceB = _local_interface()


class OnlyA:
    def only_a(self):
        return 1


class OnlyB:
    def only_b(self):
        return 2


IFACES = {'IA': (IfaceA, OnlyA), 'IB': (IfaceB, OnlyB)}
PROBE_CID = b'\x7f' * 4


# ------------------------------------------------------------- actions

def plugin_actions():
    acts = []
    for s in range(3):
        for p in PLUGINS:
            acts.append(('padd', s, p))
            acts.append(('prem', s, p))
        acts.append(('preset', s))
    return acts


def contract_actions():
    return [('cadd', 'c1', 'A'), ('cadd', 'c1', 'B'), ('cadd', 'c2', 'B'),
            ('crem', 'c1'), ('crem', 'c2')]


def iface_actions():
    return [('iadd', 'IA'), ('iadd', 'IB'), ('irem', 'IA'), ('irem', 'IB')]


def other_actions():
    return [('alias', 'QQDUP'), ('alias', 'ZZSHA'), ('alias_lc', 'QQDUP'),
            ('alias_lc', 'ZZSHA'), ('alias_builtin',), ('run', 0), ('run', 1),
            ('compile', 0), ('compile', 1), ('compile', 2), ('compile', 3)]


COMPILE_SRCS = [
    ('compile_script', '!= foo [ ] { true } !foo [ ]'),
    ('assemble', '!= foo [ ] { true }'),
    ('parse_comptime', '!= bar [ a ] { push a } ~ { !bar [ x01 ] }'),
    ('assemble', '@= v [ x0a ] @v != baz [ ] { false }'),
]


class Model:
    def __init__(self):
        self.plugins = {0: [], 1: [], 2: []}
        self.contracts = {}
        self.ifaces = set()
        self.aliases = {}

    def key(self):
        return (tuple(sorted(self.plugins[0])), tuple(sorted(self.plugins[1])),
                tuple(sorted(self.contracts.items())),
                tuple(sorted(self.ifaces)),
                tuple(sorted(self.aliases.items())),
                tuple(sorted(self.plugins[2])))

    def apply(self, a):
        k = a[0]
        if k == 'padd':
            if a[2] not in self.plugins[a[1]]:
                self.plugins[a[1]].append(a[2])
        elif k == 'prem':
            if a[2] in self.plugins[a[1]]:
                self.plugins[a[1]].remove(a[2])
        elif k == 'preset':
            self.plugins[a[1]] = []
        elif k == 'cadd':
            self.contracts[a[1]] = a[2]
        elif k == 'crem':
            self.contracts.pop(a[1], None)
        elif k == 'iadd':
            self.ifaces.add(a[1])
        elif k == 'irem':
            self.ifaces.discard(a[1])
        elif k == 'alias':
            self.aliases.setdefault(a[1], ALIASES[a[1]])
        elif k == 'alias_lc':
            self.aliases.setdefault(a[1], ALT[a[1]])
        # alias_builtin: a built-in alias is in use, nothing changes


def do_action(a, ctx=None):
    """apply one action through the public API; returns a caller-dict problem
    description or None"""
    functions, parsing, tools, _, _ = env.mods()
    import tapescript
    k = a[0]
    if k == 'padd':
        if a[1] == 0 and a[2] == 'p1':
            tapescript.add_signature_extension(PLUGINS[a[2]])
        else:
            functions.add_plugin(SCOPES[a[1]], PLUGINS[a[2]])
    elif k == 'prem':
        if a[1] == 0 and a[2] == 'p2':
            tapescript.remove_signature_extension(PLUGINS[a[2]])
        else:
            functions.remove_plugin(SCOPES[a[1]], PLUGINS[a[2]])
    elif k == 'preset':
        if a[1] == 0:
            tapescript.reset_signature_extensions()
        else:
            functions.reset_plugins(SCOPES[a[1]])
    elif k == 'cadd':
        functions.add_contract(CIDS[a[1]], CONTRACTS[a[2]])
    elif k == 'crem':
        functions.remove_contract(CIDS[a[1]])
    elif k == 'iadd':
        functions.add_contract_interface(IFACES[a[1]][0])
    elif k == 'irem':
        functions.remove_contract_interface(IFACES[a[1]][0])
    elif k == 'alias':
        try:
            functions.add_alias(a[1], ALIASES[a[1]])
        except ValueError:
            pass                        # already in use: adding twice is a no-op
    elif k == 'alias_lc':
        try:
            functions.add_alias(a[1].lower(), ALT[a[1]].lower())
        except ValueError:
            pass
    elif k == 'alias_builtin':
        try:
            functions.add_alias('verify', 'OP_DUP')
        except ValueError:
            pass
    elif k == 'run':
        # a run with caller-supplied dictionaries must not register anything
        # nor modify them
        cache = {**FIELDS, 'extra': [b'x', b'y']}
        contracts = {b'\x55' * 4: Contract(b'local')}
        plugs = {'signature_extensions': [_mk_plugin('local')]}
        flags = {1: False, 'ts_threshold': 5}
        snap = copy.deepcopy((cache, list(contracts), {k_: list(v) for k_, v in
                                                       plugs.items()}, flags))
        prog = [O('GET_MESSAGE') + b'\x00' + isa.push(b'\x55' * 4)
                + O('POP0') + O('TRUE'),
                isa.push(b'a') + isa.push(b'\x01') + isa.push(b'\x55' * 4)
                + O('INVOKE') + O('RETURN')][a[1]]
        try:
            functions.run_script(prog, cache, contracts, flags, plugs)
            functions.run_auth_scripts([prog], cache, contracts, plugs)
        except BaseException:
            pass
        Fired.log = []
        now = (cache, list(contracts), {k_: list(v) for k_, v in
                                        plugs.items()}, flags)
        if repr(now) != repr(snap):
            return f'caller dictionaries modified by run: {now!r}'[:200]
    elif k == 'compile':
        how, src = COMPILE_SRCS[a[1]]
        try:
            if how == 'compile_script':
                parsing.compile_script(src)
            elif how == 'assemble':
                parsing.assemble(parsing.get_symbols(src))
            else:
                parsing.parse_comptime(parsing.get_symbols(src))
        except BaseException:
            pass
    return None


class Orig:
    aliases = None
    ifaces = None
    additional = None


def reset_registries():
    """harness-side clean slate (through the registries' own containers)"""
    functions, parsing, tools, _, _ = env.mods()
    if Orig.aliases is None:
        Orig.aliases = dict(functions.opcode_aliases)
        Orig.ifaces = dict(functions._contract_interfaces)
        Orig.scopes = tuple(functions._plugins)
    # emptied IN PLACE: the list objects the module created stay the ones in
    # use (re-binding fresh lists here would hide what the module's own
    # containers do, e.g. two scopes sharing one list)
    for s in list(functions._plugins):
        del functions._plugins[s][:]
        if s not in Orig.scopes:
            del functions._plugins[s]   # a scope only an add_plugin creates
    functions._contracts.clear()
    functions._contract_interfaces.clear()
    functions._contract_interfaces.update(Orig.ifaces)
    functions.opcode_aliases.clear()
    functions.opcode_aliases.update(Orig.aliases)
    # the parser's shared default macro tables (if any state leaked there it
    # is the defect under test, so it is NOT cleared here)


# ------------------------------------------------------------- probes

def run_prog(prog, **kw):
    functions = env.mods()[0]
    Fired.log = []
    try:
        _, stack, cache = functions.run_script(prog, dict(FIELDS), **kw)
        return list(stack.deque), None
    except BaseException as e:
        return None, e


_PROBE_PK = sigmsg.pubkey(bytes(range(32)))


def probe_state(deep=True):
    """behavioural view of the registries (a Model.key()-shaped tuple)"""
    functions, parsing, tools, _, _ = env.mods()
    out = []
    # plugins: which recorders fire
    run_prog(O('GET_MESSAGE') + b'\x00')
    fired0 = list(Fired.log)
    run_prog(isa.push(b'hello') + O('CHECK_TEMPLATE') + b'\x01',
             additional_flags={10: False})
    fired1 = list(Fired.log)
    # every signature-related instruction uses the active extensions, under
    # the default flags: CHECK_TEMPLATE (its own plugins fire as well), SIGN,
    # CHECK_SIG, CHECK_MULTISIG
    scope1 = set(fired1)
    base0 = list(fired0)
    for nm, prog in (
            ('CHECK_TEMPLATE', isa.push(b'hello') + O('CHECK_TEMPLATE')
             + b'\x01'),
            ('SIGN', isa.push(bytes(range(32))) + O('SIGN') + b'\x00'),
            ('CHECK_SIG', isa.push(bytes(64)) + isa.push(_PROBE_PK)
             + O('CHECK_SIG') + b'\x00'),
            ('CHECK_MULTISIG', isa.push(bytes(64)) + isa.push(_PROBE_PK)
             + O('CHECK_MULTISIG') + b'\x00\x01\x01')):
        run_prog(prog)
        want_names = set(base0) | (scope1 if nm == 'CHECK_TEMPLATE' else set())
        if set(Fired.log) != want_names:
            fired0 = fired0 + [f'{nm}-USES-{sorted(set(Fired.log))}']
        # ... and wherever the instruction stands: inside the clause of a
        # block construct the same entries are used
        from . import c09 as _c09
        for blk in ('EXCEPT', 'ELSE', 'TRY', 'LOOP', 'CALL', 'EVAL', 'IF'):
            run_prog(_c09.place((blk,), prog))
            if set(Fired.log) != want_names:
                fired0 = fired0 + [f'{nm}-IN-{blk}-USES-'
                                   f'{sorted(set(Fired.log))}']
                break
    # the application's own scope, used the way an added instruction uses it:
    # run_plugins on the tape of a run
    Fired.log = []
    try:
        tape, stack, cache = functions.run_script(O('TRUE'), dict(FIELDS))
        functions.run_plugins(SCOPES[2], tape, stack, cache)
    except BaseException:
        Fired.log.append('APP-SCOPE-RAISED')
    fired2 = list(Fired.log)
    dup = len(fired0) != len(set(fired0)) or len(fired1) != len(set(fired1)) \
        or len(fired2) != len(set(fired2))
    # the same through the authorization entry point, the instruction sitting
    # in the SECOND and in the THIRD script of the list
    neutral = O('TRUE') + O('POP0')
    for pos in (1, 2):
        Fired.log = []
        try:
            functions.run_auth_scripts(
                [neutral] * pos + [O('GET_MESSAGE') + b'\x00'], dict(FIELDS))
        except BaseException:
            pass
        if sorted(set(Fired.log)) != sorted(set(fired0)):
            fired0 = fired0 + [f'AUTH-SCRIPT-{pos}-DIFFERS']
    out.append(tuple(sorted(set(fired0))))
    out.append(tuple(sorted(set(fired1))))
    # contracts
    cs = []
    for name, cid in sorted(CIDS.items()):
        st, exc = run_prog(isa.push(b'a') + isa.push(b'\x01') + isa.push(cid)
                           + O('INVOKE'))
        tag = st[-1].decode() if exc is None and st else None
        if tag is not None:
            cs.append((name, tag))
        # ... and invoked from a later script of an authorization
        for pos in (1, 2):
            seen = None
            for cand in ('A', 'B'):
                try:
                    ok = functions.run_auth_scripts(
                        [neutral] * pos + [
                            isa.push(b'a') + isa.push(b'\x01') + isa.push(cid)
                            + O('INVOKE') + isa.push(cand.encode())
                            + O('EQUAL')], dict(FIELDS))
                except BaseException:
                    ok = False
                if ok is True:
                    seen = cand
            if seen != tag:
                cs.append((name, f'AUTH-SCRIPT-{pos}-SEES-{seen}'))
    # an id only ever supplied through a run's contracts= argument
    st, exc = run_prog(isa.push(b'a') + isa.push(b'\x01')
                       + isa.push(b'\x55' * 4) + O('INVOKE'))
    if exc is None:
        cs.append(('run-local-id', 'LEAKED'))
    out.append(tuple(cs))
    # interfaces
    ifs = []
    for name, (iface, cls) in sorted(IFACES.items()):
        try:
            functions.add_contract(PROBE_CID, cls())
            functions.remove_contract(PROBE_CID)
            ifs.append(name)
        except BaseException:
            pass
    out.append(tuple(ifs))
    # aliases: which instruction each spelling compiles to
    al = []
    for alias in sorted(ALIASES):
        seen = set()
        for spelling in (alias, alias.lower()):
            # at top level and inside the body of every block construct: an
            # active alias is an alias wherever an instruction can stand
            for tmpl, at, size in (ALIAS_CONTEXTS if deep
                                   else ALIAS_CONTEXTS[:2]):
                try:
                    b = parsing.compile_script(tmpl.format(spelling))
                    seen.add(isa.NAMES[b[at]] if len(b) == size
                             and b[at] < len(isa.NAMES) else 'OTHER')
                except BaseException:
                    seen.add(None)
        if seen == {None}:
            continue
        al.append((alias, seen.pop() if len(seen) == 1 else 'INCONSISTENT'))
    try:
        if parsing.compile_script('verify') != bytes([isa.CODE['OP_VERIFY']]):
            al.append(('VERIFY', 'REPOINTED'))
    except BaseException:
        al.append(('VERIFY', 'GONE'))
    out.append(tuple(al))
    out.append(tuple(sorted(set(fired2))))
    return tuple(out), dup


# (source template, index of the instruction byte, total length)
ALIAS_CONTEXTS = [
    ('{}', 0, 1), ('def 0 {{ {} }}', 4, 5), ('def 0 {} end_def', 4, 5),
    ('true if {{ {} }}', 4, 5), ('true if {{ true }} else {{ {} }}', 7, 8),
    ('true loop {{ {} }}', 4, 5), ('try {{ {} }} except {{ }}', 3, 6),
    ('try {{ }} except {{ {} }}', 5, 6), ('if ( {} ) {{ }}', 0, 4),
    ('push ~ {{ {} }}', 1, 2),
    # right after an explicit-width push (whose look-ahead decides whether the
    # next symbol is a value or an instruction)
    ('push1 x07 {}', 3, 4), ('op_push2 x0708 {}', 5, 6),
]


BATTERY_SRC = [
    'true', 'push x0102 dup sha256', 'if { true } else { false }',
    '!= m [ a ] { push a } !m [ x01 ]', '@= v [ x01 ] @v @#v',
    'push ~ { true false }', '!foo [ ]', '!bar [ x01 ]', '!baz [ ]',
    'push d1 loop { pop0 false }', 'qqdup', 'zzsha', 'def 0 { true } call d0',
]


def battery():
    """fixed compiles and runs -> tuple of normalised outputs"""
    functions, parsing, tools, _, _ = env.mods()
    out = []
    for src in BATTERY_SRC:
        for how in ('compile_script', 'assemble', 'parse_comptime'):
            try:
                if how == 'compile_script':
                    r = parsing.compile_script(src).hex()
                elif how == 'assemble':
                    r = parsing.assemble(parsing.get_symbols(src)).hex()
                else:
                    r = repr(parsing.parse_comptime(parsing.get_symbols(src)))
            except BaseException as e:
                r = 'ERR:' + type(e).__name__
            out.append(r)
    progs = [O('GET_MESSAGE') + b'\x03', isa.push(b'\x05') + O('DUP')
             + O('ADD_INTS') + b'\x02', isa.push(b'hello') + O('CHECK_TEMPLATE')
             + b'\x01', isa.DEF(0, O('TRUE')) + isa.CALL(0),
             isa.push(b'a') + isa.push(b'\x01') + isa.push(CIDS['c1'])
             + O('INVOKE'), O('TRUE') + O('RETURN')]
    for p in progs:
        st, exc = run_prog(p)
        out.append('ERR:' + type(exc).__name__ if exc else
                   [x.hex() for x in st])
        try:
            out.append(functions.run_auth_scripts([p], dict(FIELDS)))
        except BaseException as e:
            out.append('RAISED:' + type(e).__name__)
    return repr(out)


def minimal_adds(key):
    acts = []
    for s in (0, 1):
        for p in key[s]:
            acts.append(('padd', s, p))
    for cid, obj in key[2]:
        acts.append(('cadd', cid, obj))
    for i in key[3]:
        acts.append(('iadd', i))
    for a, opn in key[4]:
        acts.append(('alias', a) if opn == ALIASES[a] else ('alias_lc', a))
    for p in key[5]:
        acts.append(('padd', 2, p))
    return acts


_baseline: dict = {}
_fresh_checked = 0


def baseline_for(key, ctx):
    """battery output for registries brought to `key` by minimal adds"""
    global _fresh_checked
    if key in _baseline:
        return _baseline[key]
    # snapshot the current registry containers, compute, restore
    functions = env.mods()[0]
    saved = ({k: list(v) for k, v in functions._plugins.items()},
             dict(functions._contracts), dict(functions._contract_interfaces),
             dict(functions.opcode_aliases))
    reset_registries()
    for a in minimal_adds(key):
        do_action(a)
    b = battery()
    for k in list(functions._plugins):
        del functions._plugins[k][:]
        if k not in saved[0]:
            del functions._plugins[k]
    for k, v in saved[0].items():
        functions._plugins.setdefault(k, []).extend(v)
    functions._contracts.clear()
    functions._contracts.update(saved[1])
    functions._contract_interfaces.clear()
    functions._contract_interfaces.update(saved[2])
    functions.opcode_aliases.clear()
    functions.opcode_aliases.update(saved[3])
    _baseline[key] = b
    if ctx is not None and _fresh_checked < 3:
        _fresh_checked += 1
        fb = fresh_process({'mode': 'battery', 'adds': minimal_adds(key)})
        ctx.count('fresh_process_baselines')
        if fb is None:
            ctx.inconclusive_because('fresh-process baseline failed')
        elif fb['battery'] != b:
            # the in-process baseline itself is contaminated by earlier
            # histories: history dependence
            _baseline[key] = fb['battery']
    return _baseline[key]


def fresh_process(inp):
    root = os.path.dirname(os.path.dirname(os.path.dirname(
        os.path.abspath(__file__))))
    os.makedirs(os.path.join(root, '.work'), exist_ok=True)
    with tempfile.TemporaryDirectory(dir=os.path.join(root, '.work')) as td:
        ip, op_ = os.path.join(td, 'i.json'), os.path.join(td, 'o.json')
        jsonx.dump_file(inp, ip)
        r = subprocess.run([sys.executable, '-B', '-m', 'tsverif.props.c19',
                            'sub', ip, op_], capture_output=True, timeout=300,
                           cwd=root)
        if r.returncode != 0 or not os.path.exists(op_):
            return None
        return jsonx.load_file(op_)



# ------------------------------------------------------------- caller dicts

def wr(key: bytes, n=1) -> bytes:
    return O('WRITE_CACHE') + bytes([len(key)]) + key + bytes([n])


def rd(key: bytes) -> bytes:
    return O('READ_CACHE') + bytes([len(key)]) + key


WRITERS = [
    ('write', isa.push(b'\x02') + isa.push(b'\x01') + wr(b'k', 2)),
    ('write-new', isa.push(b'z') + wr(b'fresh')),
    ('pop0', isa.push(b'p') + O('POP0')),
    ('try', isa.TRY(O('FALSE') + O('VERIFY'), b'')),
    ('invoke', isa.push(b'a') + isa.push(b'\x01') + isa.push(b'\x55' * 4)
     + O('INVOKE') + O('POP0')),
    ('return', O('TRUE') + isa.IF(O('RETURN'))),
    ('get_message', O('GET_MESSAGE') + b'\x00' + O('POP0')),
    ('sign', isa.push(bytes(range(32))) + O('SIGN') + b'\x00' + O('POP0')),
    ('dscalar', isa.push(bytes(range(32))) + O('DERIVE_SCALAR') + O('POP0')),
    ('read-modify', rd(b'k') + O('POP0') + isa.push(b'\x07') + wr(b'k')),
    ('raise', O('FALSE') + O('VERIFY')),
]
READERS = [
    rd(b'k'), rd(b'fresh'), rd(b'P'), rd(b'E'), rd(b'IR'), rd(b's'),
    rd(b'x'), O('TRUE') + isa.IF(b'') + O('TRUE'),
    isa.TRY(b'', b'') + isa.push(b'end'),
    O('GET_MESSAGE') + b'\x00',
    O('TRUE') + isa.LOOP(O('POP0') + O('FALSE')) + isa.push(b'end'),
]


def _rewriting_plugin(tape, stack, cache):
    cache['sigfield1'] = cache.get('sigfield1', b'') + b'+'
    cache['sigfield7'] = b'by-plugin'


def gen_callerdict(rng):
    shape = rng.randrange(6)
    ws = [rng.randrange(len(WRITERS)) for _ in range(rng.randrange(1, 4))]
    return {'callerdict': {
        'shape': shape, 'writers': ws, 'reader': rng.randrange(len(READERS)),
        'entry': rng.choice(('run_script', 'run_auth_scripts',
                             'run_auth_script', 'run_auth_scripts2')),
        'plugin': rng.random() < 0.4}}


def caller_cache(shape):
    c = {}
    if shape in (1, 3, 4, 5):
        c['timestamp'] = env.NOW0 + 7
    if shape in (2, 3, 5):
        c.update(FIELDS)
    if shape in (4, 5):
        c[b'k'] = [b'\x09', b'\x08']
        c['extra'] = [b'x', bytearray(b'y')]
    return c


def _entry(functions, entry, prog, cache, contracts, flags, plugs):
    import warnings
    try:
        if entry == 'run_script':
            _, st, ch = functions.run_script(prog, cache, contracts, flags,
                                             plugs)
            return ('ok', [bytes(x) for x in st.deque],
                    repr(sorted(ch.items(), key=repr)))
        if entry == 'run_auth_scripts':
            return ('auth', functions.run_auth_scripts([prog], cache,
                                                       contracts, plugs))
        if entry == 'run_auth_scripts2':
            return ('auth', functions.run_auth_scripts(
                [prog[:len(prog) // 2], prog[len(prog) // 2:]], cache,
                contracts, plugs))
        with warnings.catch_warnings():
            warnings.simplefilter('ignore')
            return ('auth', functions.run_auth_script(prog, cache, contracts,
                                                      plugs))
    except BaseException as e:
        return ('raised', type(e).__name__)


def judge_callerdict(ctx, case):
    """the dictionaries a caller passes to a run receive no mutation at all
    (every dict method is logged), and a second run handed the very same
    dictionaries behaves like one handed fresh equal copies"""
    from .. import instr
    functions = env.mods()[0]
    reset_registries()
    c = case['callerdict']
    ctx.evaluated()
    ctx.tab('callerdict.entry', c['entry'])
    ctx.tab('callerdict.shape', c['shape'])
    progA = b''.join(WRITERS[w][1] for w in c['writers'])
    progB = READERS[c['reader']]

    def fresh():
        cache = instr.RecDict(caller_cache(c['shape']))
        contracts = instr.RecDict({b'\x55' * 4: Contract(b'local')})
        flags = instr.RecDict({1: True, 'ts_threshold': 5})
        plugs = instr.RecDict(
            {'signature_extensions': [_rewriting_plugin]} if c['plugin']
            else {})
        return cache, contracts, flags, plugs
    d = fresh()

    def view():
        return repr((copy.deepcopy(dict(d[0])),
                     [(k, id(v)) for k, v in d[1].items()],
                     copy.deepcopy(dict(d[2])),
                     {k: [id(f) for f in v] for k, v in d[3].items()}))
    snap = view()
    env.Clock.now = env.NOW0
    _entry(functions, c['entry'], progA, *d)
    logs = [('cache', d[0].log), ('contracts', d[1].log),
            ('additional_flags', d[2].log), ('plugins', d[3].log)]
    ctx.count('monitor.callerdict_runs')
    for name, log in logs:
        if log:
            ctx.violation('caller-dict-modified', f'{c["entry"]} mutated the '
                          f"caller's {name} dictionary: {log[:4]!r}"[:300],
                          case, 'no mutation', repr(log[:6])[:200])
            return
    if view() != snap:
        ctx.violation('caller-dict-modified', f'{c["entry"]} changed a value '
                      "inside the caller's dictionaries in place", case,
                      snap[:200], view()[:200])
        return
    # second run on the same dictionaries vs on fresh ones
    env.Clock.now = env.NOW0
    shared = _entry(functions, c['entry'], progB, *d)
    env.Clock.now = env.NOW0
    alone = _entry(functions, c['entry'], progB, *fresh())
    if shared != alone:
        ctx.violation('run-leaks-into-later-run', 'a run that reuses the '
                      "caller's dictionaries after another run behaves "
                      'differently from one with fresh equal dictionaries',
                      case, repr(alone)[:200], repr(shared)[:200])
        return
    ctx.mark_nontrivial(hashlib.blake2b(repr(sorted(c.items())).encode(),
                                        digest_size=8).digest())


# ------------------------------------------------------------- judging

def run_history(hist, ctx=None, collect=None):
    """replay one history from a clean slate; -> list of (key, what)"""
    reset_registries()
    m = Model()
    problems = []
    live2 = False
    after_removal = False
    for step, a in enumerate(hist):
        a = tuple(a)
        try:
            p = do_action(a)
        except BaseException as e:
            problems.append(('registry-call-raised',
                             f'step {step} {a}: {e!r}'[:160]))
            break
        m.apply(a)
        if p:
            problems.append(('caller-dict-modified', f'step {step} {a}: {p}'))
            break
        # every block context after an alias action and on every third
        # step; top level and one definition body otherwise
        got, dup = probe_state(a[0].startswith('alias') or step % 3 == 0)
        want = m.key()
        if a[0] in ('prem', 'preset', 'crem', 'irem'):
            after_removal = True
        if any(len(v) >= 2 for v in m.plugins.values()) or \
                len(m.contracts) >= 2:
            live2 = True
        if dup:
            problems.append(('plugin-fired-twice', f'step {step} {a}: a '
                             'plugin ran more than once for one instruction'))
            break
        if got != want:
            fam = ['plugins', 'plugins', 'contracts', 'interfaces', 'aliases',
                   'plugins']
            which = [fam[i] for i in range(6) if got[i] != want[i]]
            key = 'registry-not-a-set:' + which[0]
            if a[0] == 'preset' and which[0] == 'plugins':
                key = 'reset-plugins-leaves-entries'
            problems.append((key, f'step {step} {a}: active entries '
                             f'{got} differ from the set model {want}'))
            break
        b = battery()
        if b != baseline_for(want, ctx):
            key = 'history-dependent-output'
            if any(x[0] == 'compile' for x in map(tuple, hist[:step + 1])):
                key = 'history-dependent-compile'
            problems.append((key, f'step {step} {a}: battery output differs '
                             'from registries with the same contents built by '
                             'a minimal add sequence'))
            break
    if collect is not None:
        collect['nontrivial'] = live2 or after_removal
    return problems


def judge_history(ctx, hist):
    ctx.evaluated()
    info = {}
    problems = run_history(hist, ctx, info)
    ctx.count('history_steps', len(hist))
    if problems:
        key, what = problems[0]
        # re-validate in a fresh process
        res = fresh_process({'mode': 'history', 'history': [list(a) for a in hist]})
        ctx.count('fresh_process_confirmations')
        if res is None:
            ctx.inconclusive_because('fresh-process confirmation failed')
            return
        if res['problems']:
            k2, w2 = res['problems'][0]
            ctx.violation(k2, w2, {'history': [list(a) for a in hist]})
        else:
            ctx.count('unconfirmed_in_fresh_process')
            ctx.violation('leak-across-histories', 'a violation appears only '
                          'after earlier histories ran in the same process '
                          f'(state leaked past a registry clean slate): {key}: '
                          f'{what}'[:300], {'history': [list(a) for a in hist]})
        return
    if info.get('nontrivial'):
        ctx.mark_nontrivial(hashlib.blake2b(repr(hist).encode(),
                                            digest_size=8).digest())


PLUGIN_STRIDE = {('quick', 4): 24, ('thorough', 5): 16}


def run_shard(spec, ctx):
    i, of = spec['shard'], spec['of']
    tier = ctx.tier
    fams = [('plugins', plugin_actions(), 4 if tier == 'quick' else 5),
            ('contracts', contract_actions(), 4 if tier == 'quick' else 6),
            ('interfaces', iface_actions(), 4 if tier == 'quick' else 6),
            ('other', other_actions(), 3 if tier == 'quick' else 4)]
    idx = 0
    for name, acts, maxlen in fams:
        for n in range(1, maxlen + 1):
            for hist in itertools.product(acts, repeat=n):
                idx += 1
                if idx % of != i:
                    continue
                # 21 plugin actions (3 scopes): the longest length is
                # sampled with a stride, everything shorter is exhaustive
                stride = PLUGIN_STRIDE.get((tier, n), 1) \
                    if name == 'plugins' else 1
                if stride > 1 and idx % (of * stride) != i:
                    continue
                judge_history(ctx, hist)
        ctx.exhaustive(f'{name}: all histories up to length {maxlen}'
                       + (f' (plugins: length {maxlen} every '
                          f'{PLUGIN_STRIDE[(tier, maxlen)]}th)'
                          if name == 'plugins' else ''))
    allacts = plugin_actions() + contract_actions() + iface_actions() \
        + other_actions()
    nr = (300 if tier == 'quick' else 20000) // of
    for j in range(nr):
        rng = ctx.rng(j)
        hist = tuple(rng.choice(allacts)
                     for _ in range(rng.choice((5, 10, 20, 40))))
        judge_history(ctx, hist)
        if j % 10 == 0:
            ctx.sample({'history': [list(a) for a in hist[:12]]})
    for j in range((4000 if tier == 'quick' else 60000) // of):
        judge_callerdict(ctx, gen_callerdict(ctx.rng(('cd', j))))


def finalize(agg, tier):
    out = []
    c = agg['counters']
    if not c.get('history_steps'):
        out.append('no history step ran')
    if not c.get('monitor.callerdict_runs'):
        out.append('no caller-dictionary run was monitored')
    if not c.get('fresh_process_baselines'):
        out.append('no fresh-process baseline computed')
    return out


def replay(case, ctx):
    if 'callerdict' in case:
        return judge_callerdict(ctx, case)
    judge_history(ctx, tuple(tuple(a) for a in case['history']))


def sub_main(inp):
    env.bootstrap()
    if inp['mode'] == 'battery':
        reset_registries()
        for a in inp['adds']:
            do_action(tuple(a))
        return {'battery': battery()}
    probs = run_history([tuple(a) for a in inp['history']])
    return {'problems': [list(p) for p in probs]}


if __name__ == '__main__':
    if sys.argv[1] == 'sub':
        jsonx.dump_file(sub_main(jsonx.load_file(sys.argv[2])), sys.argv[3])
