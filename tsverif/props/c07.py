"""C07 — stack, item-size, call-depth, loop and tape limits hold at every step.

Every resource-hungry script is run twice: instrumented (monitored Stack /
deque / Tape injected, frame tracker over CALL / EVAL / LOOP, dispatch budget)
where the invariants are asserted at the hooks, and plain (outcome class,
run_auth_scripts verdict, tracemalloc peak, entropy-request log).
"""
from __future__ import annotations
import hashlib
import sys
import tracemalloc

from .. import env, instr
from ..ref import isa

ID = 'C07'
RULE = ('resource-hungry scripts from templates (push floods around '
        'max_items, COPY n, DUP CONCAT growth in loops, recursive / mutual '
        'CALL, self-EVAL, recursion through IF/TRY/LOOP, nested IF/TRY to '
        'depth 300, RANDOM / SHAKE256 / MULT_INTS / NOT with huge operands, '
        'counts 0/255, truncated operands, PUSH2 past the end, raw bytes) x '
        'limit triples max_items {1,2,3,8,1024} x max_item_size '
        '{1,2,33,1024,65535} x callstack_limit {1,2,3,16,128}; run_script and '
        'direct run_tape with a caller stack. distinct = by (script, limits); '
        'non-trivial = reaches >= 90% of some limit, or raises')
ASSUMPTIONS = [
    'memory bound: tracemalloc peak <= 2 MiB + 8*max_items*max_item_size + '
    'len(script)^2 + 4096*len(script) (nesting slices bodies per level; '
    'generous constants); every entropy request <= max_item_size',
    'a run that exhausts the dispatch budget (10^5) without any monitored '
    'limit being exceeded is skipped and counted (total work is not bounded '
    'by the property, only depth and per-loop iterations are)',
    'instrumented runs use a raised Python recursion limit (wrappers add '
    'frames); outcomes are taken from the plain run',
]
NSH = 16
NCASE = {'quick': 19_200, 'thorough': 400_000}
RECURSION_LIMIT = 1000
BUDGET = 100_000
O = isa.op

MAXI = (1, 2, 3, 8, 1024)
MAXS = (1, 2, 33, 1024, 65535)
LIMS = (1, 2, 3, 16, 128)


# CPU seconds (user mode, this process) one instrumented run may use; the
# slowest terminating run observed on the unchanged tree is in the evidence
# (max_cpu_ms_one_run) and stays two orders of magnitude below
CPU_BUDGET = 30.0
# sub-tape nesting a script may reach without CPython's default recursion
# limit being the cause of an error (see the open finding): any script, and
# the plain IF / TRY nests (two frames per level)
SHALLOW_ANY, SHALLOW_PLAIN = 300, 410
NONTERMINATING = [0]


def shards(tier, seed):
    return [{'shard': i, 'of': NSH} for i in range(NSH)]


def rbytes(rng, n):
    return bytes(rng.getrandbits(8) for _ in range(n))


def gen_script(rng, mi, ms, lim):
    k = rng.choice(('flood', 'copy', 'concat_loop', 'rec_call', 'mutual',
                    'rec_ctx', 'rec_ctx', 'rec_ctx_eval',
                    'self_eval', 'rec_if', 'rec_try', 'rec_loop', 'nest_if',
                    'nest_try', 'random', 'shake', 'mult', 'not', 'trunc',
                    'trunc',
                    'push2_past', 'raw', 'loop_count', 'reverse_swap',
                    'cache_flood', 'cache_foreign', 'split_concat', 'nested_loops', 'eval_rec',
                    'merkle_eval', 'big_item', 'depth_items', 'producer',
                    'producer', 'exact_chain', 'exact_chain'))
    if k == 'exact_chain':
        # d evaluations nested in each other, each level reached through a
        # random one of the evaluating instructions: the run must end in an
        # error exactly when d exceeds the call-stack limit
        from . import c09
        d = max(1, lim + rng.choice((-1, 0, 1, 1, 2, 3))) if lim <= 16 \
            else rng.choice((1, 3, 6))
        body = O('TRUE') + O('POP0')
        kinds = []
        for _ in range(d):
            w = rng.choice(('EVAL', 'TAPROOT', 'MERKLEVAL', 'TAPROOT', 'CALL'))
            if len(body) > 700 and w != 'CALL':
                w = 'EVAL'
            kinds.append(w)
            if w == 'CALL':
                h = 30 + len(kinds)
                body = isa.DEF(h, body) + isa.CALL(h)
            else:
                body = c09.place((w,), body)
        return 'exact_chain:' + str(d), body
    if k == 'producer':
        # small items, then an instruction whose RESULT can be larger than
        # its operands (fixed-size digests, floats, carries, padded values)
        n = min(ms, rng.choice((1, 1, 2, 3, 4)))
        a, b = rbytes(rng, n), rbytes(rng, max(1, n - rng.randrange(0, 2)))
        big = bytes([0x7f]) + b'\xff' * (n - 1)
        longer = rbytes(rng, n + rng.choice((1, 1, 2, 5)))
        tail = rng.choice((
            O('SHA256'), O('SHA256') + O('SHA256'),
            O('SHAKE256') + bytes([rng.choice((1, 2, ms & 0xff, 33, 64))]),
            O('INT_TO_FLOAT'), O('DUP') + O('CONCAT'),
            isa.push(big) + O('ADD_INTS') + b'\x02',
            isa.push(big) + O('MULT_INTS') + b'\x02',
            isa.push(big) + O('SUBTRACT_INTS') + b'\x02',
            isa.push(b) + O('XOR'), isa.push(b) + O('OR'),
            isa.push(b) + O('AND'), O('NOT'),
            # ... the LONGER operand on top (the shorter one is padded)
            isa.push(longer) + O('XOR'), isa.push(longer) + O('OR'),
            isa.push(longer) + O('AND'),
            O('GET_VALUE') + b'\x09timestamp',
            O('GET_MESSAGE') + b'\x00', O('DEPTH'),
            O('RANDOM') + bytes([rng.choice((1, ms & 0xff, 33))]),
            isa.push(b'\x01') + O('SPLIT'), O('SIZE') if 'SIZE' in isa.CODE
            else O('DEPTH'),
            O('DUP') + O('CONCAT_STR'), O('REVERSE') + b'\x01'))
        wrapped = rng.choice((tail, tail, O('TRUE') + isa.IF(tail),
                              isa.DEF(0, tail) + isa.CALL(0),
                              O('TRUE') + isa.LOOP(O('POP0') + tail
                                                   + O('FALSE'))))
        return k, isa.push(a) + wrapped + rng.choice((b'', O('POP0')
                                                       + O('TRUE')))
    if k == 'flood':
        n = max(0, mi + rng.choice((-2, -1, 0, 1, 2, 5))) if mi < 100 \
            else rng.choice((mi - 1, mi, mi + 1, mi + 3))
        item = rbytes(rng, rng.choice((1, 1, min(ms, 2))))
        return k, isa.push(item) * n
    if k == 'copy':
        pre = rng.randrange(0, 4)
        n = rng.choice((0, 1, 2, 254, 255, max(0, mi - pre - 1) & 0xff,
                        max(0, mi - pre) & 0xff))
        return k, O('TRUE') * pre + isa.push(b'\x07') + O('COPY') + bytes([n]) \
            + (O('COPY') + bytes([255])) * rng.randrange(0, 6)
    if k == 'concat_loop':
        body = O('POP0') + O('DUP') + O('CONCAT') + O('TRUE')
        return k, isa.push(rbytes(rng, rng.choice((1, 3)))) + O('TRUE') \
            + isa.LOOP(body)
    if k in ('rec_ctx', 'rec_ctx_eval'):
        # recursion whose recursive step sits inside a random stack of
        # contexts: every clause kind must carry the call count
        step = isa.CALL(0) if k == 'rec_ctx' else O('DUP') + O('EVAL')
        for _ in range(rng.randrange(1, 4)):
            c = rng.choice(('if', 'then', 'else', 'try', 'except', 'loop1'))
            if c == 'if':
                step = O('TRUE') + isa.IF(step)
            elif c == 'then':
                step = O('TRUE') + isa.IF_ELSE(step, b'')
            elif c == 'else':
                step = O('FALSE') + isa.IF_ELSE(b'', step)
            elif c == 'try':
                step = isa.TRY(step, rng.choice((b'', O('TRUE') + O('POP0'))))
            elif c == 'except':
                step = isa.TRY(O('FALSE') + O('VERIFY'), step)
            else:
                step = O('TRUE') + isa.LOOP(O('POP0') + step + O('FALSE')) \
                    + O('POP0')
        if k == 'rec_ctx':
            return k, isa.DEF(0, step) + isa.CALL(0)
        if len(step) > ms:
            return k, isa.DEF(0, step) + isa.CALL(0)
        return k, isa.push(step) + step
    if k == 'rec_call':
        return k, isa.DEF(0, rng.choice((b'', O('TRUE'))) + isa.CALL(0)) \
            + isa.CALL(0)
    if k == 'mutual':
        return k, isa.DEF(0, isa.CALL(1)) + isa.DEF(1, O('TRUE') + O('POP0')
                                                    + isa.CALL(0)) + isa.CALL(0)
    if k == 'self_eval':
        s = O('DUP') + O('EVAL')
        return k, isa.push(s) + s
    if k == 'eval_rec':
        # function that evaluates a script calling the function again
        inner = isa.CALL(0)
        return k, isa.DEF(0, isa.push(inner) + O('EVAL')) + isa.CALL(0)
    if k == 'rec_if':
        d = rng.randrange(1, 4)
        body = isa.CALL(0)
        for _ in range(d):
            body = O('TRUE') + isa.IF(body)
        return k, isa.DEF(0, body) + isa.CALL(0)
    if k == 'rec_try':
        return k, isa.DEF(0, isa.TRY(isa.CALL(0), O('TRUE') + O('POP0'))
                          * rng.randrange(1, 3)) + isa.CALL(0)
    if k == 'rec_loop':
        return k, isa.DEF(0, O('TRUE') + isa.LOOP(isa.CALL(0))) + isa.CALL(0)
    if k in ('nest_if', 'nest_try'):
        d = rng.choice((1, 5, 50, 200, 300, 400, 400, 480, 520, 700))
        body = O('TRUE')
        for _ in range(d):
            if len(body) > 60000:
                break
            body = (O('TRUE') + isa.IF(body)) if k == 'nest_if' \
                else isa.TRY(body, b'')
        return k + ('-deep' if d > 400 else ''), body
    if k == 'random':
        n = rng.choice((0, 1, ms - 1, ms, ms + 1, 65535, 65536, 10**6,
                        5 * 10**7, 2**31, 2**47 - 1, -1, -2**31))
        return k, isa.push(isa.int_enc(n)) + O('RANDOM')
    if k == 'shake':
        return k, isa.push(rbytes(rng, 3)) + O('SHAKE256') \
            + bytes([rng.choice((0, 1, ms & 0xff, 255, min(255, ms + 1)))])
    if k == 'mult':
        n = min(ms, 1024)
        v = b'\x7f' + b'\xff' * (n - 1)
        cnt = rng.choice((2, 3, 255))
        return k, isa.push(v) + (O('DUP') * min(cnt - 1, 8)) + O('MULT_INTS') \
            + bytes([min(cnt, 9)])
    if k == 'not':
        n = min(ms, 60000)
        return k, isa.push(bytes(n) or b'\x00') + O('NOT') + O('DUP') + O('CONCAT')
    if k == 'trunc':
        full = rng.choice((
            isa.push(rbytes(rng, 40)), O('WRITE_CACHE') + b'\x05abcde\x01',
            isa.IF(O('TRUE') * 5), isa.DEF(0, O('TRUE') * 4),
            O('MERKLEVAL') + bytes(32), O('SWAP') + b'\x00\x01',
            O('CHECK_MULTISIG') + b'\x00\x01\x01', isa.TRY(O('TRUE'), O('TRUE')),
            O('DIV_FLOAT') + bytes(4)))
        # every block-taking instruction, cut short, behind a TRUE and behind
        # a FALSE (the untaken branch has to be skipped within bounds too),
        # also inside a function body and an evaluated script
        cond = rng.choice((O('TRUE'), O('FALSE'), O('FALSE'),
                           O('FALSE') + O('TRUE'), O('TRUE') + O('FALSE')))
        if rng.random() < 0.5:
            body = O('TRUE') * rng.randrange(1, 6)
            full = rng.choice((
                isa.IF(body), isa.IF_ELSE(body, body), isa.LOOP(body),
                isa.TRY(body, body), isa.DEF(0, body)))
            cut = full[:rng.randrange(1, len(full))]
            # or: whole block present but the declared size lies
            if rng.random() < 0.4:
                lie = (len(body) + rng.choice((1, 2, 255, 60000))) & 0xffff
                cut = full[:1] + lie.to_bytes(2, 'big') + full[3:]
        else:
            cut = full[:rng.randrange(1, len(full))]
        prog = cond + cut
        w = rng.random()
        if w < 0.2:
            prog = isa.DEF(1, prog) + isa.CALL(1)
        elif w < 0.4:
            prog = isa.push(prog) + O('EVAL')
        return k, prog
    if k == 'push2_past':
        n = rng.choice((1, 255, 256, 32767, 32768, 65535))
        return k, b'\x04' + n.to_bytes(2, 'big') + bytes(rng.randrange(0, 4))
    if k == 'raw':
        return k, rbytes(rng, rng.randrange(1, 60))
    if k == 'loop_count':
        # a counting loop that wants lim-1 / lim / lim+1 iterations
        n = max(0, lim + rng.choice((-1, 0, 1, 2)))
        body = isa.push(b'\x01') + O('SWAP2') + O('SUBTRACT_INTS') + b'\x02'
        return k, isa.push(isa.int_enc(n)) + isa.LOOP(body)
    if k == 'reverse_swap':
        return k, O('TRUE') * rng.randrange(0, 4) + rng.choice((
            O('REVERSE') + bytes([rng.choice((0, 1, 3, 4, 255))]),
            O('SWAP') + bytes([rng.choice((0, 1, 3, 255)),
                               rng.choice((0, 2, 3, 255))])))
    if k == 'cache_foreign':
        # cache entries that did NOT come from the stack (the error record a
        # TRY leaves under E) read back onto it: the item limits hold for
        # them as for every other item
        rd = rng.choice((O('READ_CACHE') + b'\x01E',
                         isa.push(b'E') + O('READ_CACHE_STACK'),
                         (O('READ_CACHE') + b'\x01E') * 3))
        return k, isa.TRY(O('FALSE') + O('VERIFY'), rd)
    if k == 'cache_flood':
        # write then read back more items than fit
        n = min(mi, 6)
        return k, isa.push(b'\x01') * n + O('WRITE_CACHE') + b'\x01k' \
            + bytes([n]) + (O('READ_CACHE') + b'\x01k') * 3
    if k == 'split_concat':
        return k, isa.push(rbytes(rng, min(ms, 8) or 1)) + isa.push(
            isa.int_enc(rng.choice((0, 1, 7, 8, 9, -1)))) + O('SPLIT') \
            + O('CONCAT') * 2
    if k == 'nested_loops':
        inner = isa.push(b'\x03') + isa.LOOP(
            isa.push(b'\x01') + O('SWAP2') + O('SUBTRACT_INTS') + b'\x02') \
            + O('POP0')
        body = inner + isa.push(b'\x01') + O('SWAP2') + O('SUBTRACT_INTS') \
            + b'\x02'
        return k, isa.push(bytes([rng.choice((1, 2, 4))])) + isa.LOOP(body)
    if k == 'merkle_eval':
        import hashlib as h
        leaf = isa.CALL(0) if rng.random() < 0.5 else O('DUP') + O('EVAL')
        sib = rbytes(rng, 32)
        c1 = h.sha256(h.sha256(leaf).digest()).digest()
        c2 = h.sha256(sib).digest()
        root = bytes(a ^ b for a, b in zip(c1, c2))
        mk = isa.push(sib) + isa.push(leaf) + O('MERKLEVAL') + root
        return k, isa.DEF(0, mk) + isa.CALL(0)
    if k == 'big_item':
        n = rng.choice((ms - 1, ms, ms + 1, 2 * ms))
        n = max(1, min(n, 65535))
        return k, isa.push(bytes(n) if n > 1 else b'\x01') + O('DUP') + O('CONCAT')
    # depth_items: ops producing several items near the item limit
    return k, isa.push(b'\x01') * max(0, min(mi, 40) - 1) + rng.choice((
        O('DEPTH'), O('DUP'), O('TRUE') + O('TRUE'),
        isa.push(rbytes(rng, 4)) + isa.push(b'\x02') + O('SPLIT')))


def dg(script, lims) -> bytes:
    return hashlib.blake2b(script + repr(lims).encode(),
                           digest_size=8).digest()


def run_instrumented(script, mi, ms, lim, via_run_tape, entry=None):
    functions = env.mods()[0]
    mon = instr.Monitor(budget=BUDGET)
    mon.configured = (mi, ms, lim)      # what the caller asked for
    old = sys.getrecursionlimit()
    sys.setrecursionlimit(30000)
    exc = None
    try:
        with instr.cpu_budget(CPU_BUDGET) as watch, \
                instr.injected(mon, trace_dispatch=True, frames=True):
            try:
                if via_run_tape:
                    MonDeque, MonStack, MonTape = instr.classes()
                    tape = MonTape(script, callstack_limit=lim)
                    stack = MonStack(mi, ms)
                    functions.run_tape(tape, stack,
                                       {'timestamp': env.NOW0})
                elif entry == 'auth':
                    functions.run_auth_scripts([script], {}, {}, {}, mi, ms,
                                               lim)
                elif entry == 'auth-kw':
                    functions.run_auth_scripts(
                        [script], stack_max_items=mi, stack_max_item_size=ms,
                        callstack_limit=lim)
                elif entry in ('auth-2nd', 'auth-3rd'):
                    # the limits of an authorization hold for EVERY script of
                    # the list, not only for the first
                    pre = [isa.op('TRUE') + isa.op('POP0')] * \
                        (1 if entry == 'auth-2nd' else 2)
                    functions.run_auth_scripts(pre + [script], {}, {}, {}, mi,
                                               ms, lim)
                elif entry == 'auth1':
                    functions.run_auth_script(script, {}, {}, {}, mi, ms, lim)
                elif entry == 'auth1-kw':
                    functions.run_auth_script(
                        script, stack_max_items=mi, stack_max_item_size=ms,
                        callstack_limit=lim)
                elif entry == 'positional':
                    functions.run_script(script, {}, {}, {}, {}, mi, ms, lim)
                else:
                    functions.run_script(script, {}, stack_max_items=mi,
                                         stack_max_item_size=ms,
                                         callstack_limit=lim)
            except instr.BudgetExceeded as e:
                exc = e
            except BaseException as e:
                exc = e
    finally:
        sys.setrecursionlimit(old)
    mon.cpu_used = watch.used
    mon.cpu_fired = watch.fired
    return mon, exc


def run_plain(script, mi, ms, lim, compare_entries=True):
    functions = env.mods()[0]
    env.Entropy.log = []
    tracemalloc.start()
    exc = None
    try:
        functions.run_script(script, {}, stack_max_items=mi,
                             stack_max_item_size=ms, callstack_limit=lim)
    except BaseException as e:
        exc = e
    _, peak = tracemalloc.get_traced_memory()
    tracemalloc.stop()
    entropy = list(env.Entropy.log)
    ec = env.Entropy.counter
    try:
        auth = functions.run_auth_scripts([script], {}, {}, {}, mi, ms, lim)
    except BaseException as e:
        auth = e
    if not compare_entries:
        return exc, peak, entropy, auth
    env.Entropy.counter = ec            # the same entropy stream again
    try:
        auth1 = functions.run_auth_script(script, {}, {}, {}, mi, ms, lim)
    except BaseException as e:
        auth1 = e
    if auth1 is not auth and not (isinstance(auth, BaseException)
                                  and isinstance(auth1, BaseException)):
        auth = ('entry points differ', auth, auth1)
    return exc, peak, entropy, auth


INTERP_FAIL = (RecursionError, MemoryError, SystemError, OverflowError)


def judge(ctx, case):
    script, mi, ms, lim = case['script'], case['mi'], case['ms'], case['lim']
    ctx.evaluated()
    ctx.tab('template', case['tmpl'].split(':')[0])
    if NONTERMINATING[0] >= 3:
        ctx.count('skipped.after_three_nonterminating_runs')
        return
    mon, iexc = run_instrumented(script, mi, ms, lim, case.get('rt', False),
                                 case.get('entry'))
    if mon.cpu_fired:
        NONTERMINATING[0] += 1
    ctx.tab('entry', 'run_tape' if case.get('rt') else
            (case.get('entry') or 'run_script'))
    ctx.count('monitor.dispatches', mon.dispatches)
    ctx.count('monitor.tape_reads', mon.reads)
    ctx.count('monitor.stack_appends', mon.appends)
    ctx.max('max_stack_len_seen', mon.max_stack_len)
    ctx.max('max_item_size_seen', mon.max_item_size)
    ctx.max('max_chain_seen', mon.max_chain)
    ctx.max('max_loop_iters_seen', mon.max_loop_iters)
    ctx.max('max_cpu_ms_one_run', int(mon.cpu_used * 1000))
    if mon.cpu_fired:
        # the dispatch budget bounds what a run may do in INSTRUCTIONS; this
        # bounds what it may do inside one: no terminating run of this
        # workload uses a hundredth of it
        ctx.violation('run-does-not-end', f'the run used {CPU_BUDGET} s of '
                      'CPU time without ending (the dispatch hook saw '
                      f'{mon.dispatches} instructions start): a loop inside '
                      'an instruction that no limit stops', case,
                      f'< {CPU_BUDGET} s CPU', f'{mon.cpu_used:.1f} s')
        return
    for key, desc in mon.problems:
        ctx.violation(key, 'limit invariant broken at the hook: ' + desc,
                      case)
        break
    if mon.problems:
        return
    if mon.exhausted or isinstance(iexc, instr.BudgetExceeded):
        ctx.count('skipped.dispatch_budget_exhausted')
        return
    # the wrapper adds a Python frame: where a script comes near CPython's
    # recursion limit (known finding) a TRY can swallow the RecursionError at
    # a different point, so entry points are only compared on shallow runs
    exc, peak, entropy, auth = run_plain(script, mi, ms, lim,
                                         mon.max_py_depth <= 60)
    ctx.max('max_tracemalloc_peak', peak)
    ctx.tab('outcome', 'ok' if exc is None else type(exc).__name__)
    within = mon.max_chain <= lim and mon.max_loop_iters <= lim
    if isinstance(exc, INTERP_FAIL):
        key = 'interpreter-level-failure-' + type(exc).__name__
        if isinstance(exc, RecursionError) and within:
            key = 'python-recursion-before-callstack-limit'
            ctx.tab('recursion_error_at_run_tape_nesting',
                    mon.max_py_depth // 20 * 20)
            # the open finding is CPython's limit of 1000 frames reached at
            # two frames per sub-tape level (three through MERKLEVAL /
            # TAPROOT): plain nesting >= ~490.  The same error on a script
            # that never nests that far is another input and not that
            # finding (e.g. a further Python frame per run_tape level)
            if mon.max_py_depth <= SHALLOW_ANY or (
                    case['tmpl'] in ('nest_if', 'nest_try')
                    and mon.max_py_depth <= SHALLOW_PLAIN):
                key = 'python-recursion-at-shallow-nesting'
        if isinstance(exc, OverflowError) and entropy and \
                max(entropy) > ms:
            key = 'entropy-request-over-item-limit'
        ctx.violation(key, f'script ended with {type(exc).__name__} instead '
                      'of a script-execution error', case, 'script error',
                      repr(exc)[:120])
    if case['tmpl'].startswith('exact_chain:') and ms >= 64 and mi >= 8:
        d = int(case['tmpl'].split(':')[1])
        if d > lim and exc is None:
            ctx.violation('chain-over-limit', f'{d} evaluations nested in '
                          f'each other ran to the end under call-stack limit '
                          f'{lim}', case, 'script error', 'no error')
        elif d <= lim and exc is not None and len(script) < 1000:
            ctx.violation('chain-within-limit-refused', f'{d} nested '
                          f'evaluations raised under call-stack limit {lim}',
                          case, 'no error', repr(exc)[:100])
    if isinstance(auth, tuple):
        ctx.violation('auth-entry-points-differ', 'run_auth_scripts and '
                      'run_auth_script give different verdicts under the '
                      'same limits', case, repr(auth[1])[:60],
                      repr(auth[2])[:60])
    elif auth is not False and auth is not True:
        ctx.violation('auth-raises-on-limit', 'run_auth_scripts raised',
                      case, 'False', repr(auth)[:120])
    elif exc is not None and auth is True:
        ctx.violation('auth-true-after-error', 'run_script raised but '
                      'run_auth_scripts returned True', case)
    for n in entropy:
        if n > ms:
            ctx.violation('entropy-request-over-item-limit', f'entropy '
                          f'request of {n} bytes with max_item_size {ms} '
                          '(allocation proportional to an attacker-chosen '
                          'number)', case, f'<= {ms}', n)
            break
    # nesting legitimately costs memory quadratic in the script length (each
    # level slices its body) plus per-level tape/flag objects
    bound = (2 << 20) + 8 * mi * ms + len(script) ** 2 + 4096 * len(script)
    if peak > bound:
        ctx.violation('memory-over-budget', f'tracemalloc peak {peak} > '
                      f'limit-derived bound {bound}', case, bound, peak)
    near = (mon.max_stack_len >= 0.9 * mi or mon.max_item_size >= 0.9 * ms
            or mon.max_chain >= 0.9 * lim or mon.max_loop_iters >= 0.9 * lim)
    if near or exc is not None:
        ctx.mark_nontrivial(dg(script, (mi, ms, lim)))
    if near:
        ctx.count('cases_near_a_limit')


def repo_suite_under_monitors(ctx, only=None):
    """the repository's own tests as one more workload: every Tape read and
    Stack append they cause goes through the same invariant hooks"""
    import json
    import os
    import subprocess
    import sys
    import tempfile
    root = os.path.dirname(os.path.dirname(os.path.dirname(
        os.path.abspath(__file__))))
    os.makedirs(os.path.join(root, '.work'), exist_ok=True)
    with tempfile.TemporaryDirectory(dir=os.path.join(root, '.work')) as td:
        rep = os.path.join(td, 'report.json')
        envv = dict(os.environ, PYTHONPATH=root, TSVERIF_PYTEST_REPORT=rep,
                    PYTHONDONTWRITEBYTECODE='1')
        envv.pop('TAPESCRIPT_VERIF', None)
        cmd = [sys.executable, '-B', '-m', 'pytest', '-q', '-p',
               'tsverif.pytest_monitors', '-p', 'no:cacheprovider',
               '--timeout=600'] + ([only] if only else [])
        try:
            subprocess.run(cmd, cwd=env.REPO, env=envv, capture_output=True,
                           timeout=900)
        except subprocess.TimeoutExpired:
            # supplementary workload: a wall-clock timeout on a loaded
            # machine says nothing about the property
            ctx.count('repo_suite.timed_out')
            return
        if not os.path.exists(rep):
            ctx.inconclusive_because('repository suite under monitors wrote '
                                     'no report')
            return
        r = json.load(open(rep))
    ctx.evaluated(r['tests'])
    ctx.count('repo_suite.tests_run', r['tests'])
    ctx.count('repo_suite.tape_reads', r['reads'])
    ctx.count('repo_suite.stack_appends', r['appends'])
    ctx.max('repo_suite.max_stack_len', r['max_stack'])
    ctx.max('repo_suite.max_item_size', r['max_item'])
    for nodeid, k, d in r['problems']:
        ctx.violation(k, 'limit invariant broken at the hook while the '
                      f'repository test {nodeid} ran: {d}',
                      {'repo_test': nodeid}, 'no breach', d)


def run_shard(spec, ctx):
    i, of = spec['shard'], spec['of']
    if i == 0:
        repo_suite_under_monitors(ctx)
    n = NCASE[ctx.tier] // of
    for j in range(n):
        rng = ctx.rng(j)
        mi, ms, lim = rng.choice(MAXI), rng.choice(MAXS), rng.choice(LIMS)
        tmpl, script = gen_script(rng, mi, ms, lim)
        if len(script) > 66000:
            continue
        case = {'script': script if len(script) < 3000 else script,
                'mi': mi, 'ms': ms, 'lim': lim, 'tmpl': tmpl,
                'rt': rng.random() < 0.15,
                'entry': rng.choice((None, None, None, 'auth', 'auth-kw',
                                     'auth1', 'auth1-kw', 'positional',
                                     'auth-2nd', 'auth-2nd', 'auth-3rd'))}
        judge(ctx, case)
        if j % 300 == 0 and len(script) < 80:
            ctx.sample(case)


def finalize(agg, tier):
    out = []
    c = agg['counters']
    for k in ('monitor.dispatches', 'monitor.tape_reads',
              'monitor.stack_appends', 'cases_near_a_limit'):
        if not c.get(k):
            out.append(f'{k} == 0: deciding monitor never reached')
    if not c.get('repo_suite.timed_out') and (
            not c.get('repo_suite.tape_reads')
            or not c.get('repo_suite.stack_appends')):
        out.append('the repository suite produced no monitored event')
    m = agg['maxes']
    if m.get('max_chain_seen', 0) < 16 or m.get('max_loop_iters_seen', 0) < 16:
        out.append('call chain / loop iteration monitors never saw depth 16')
    return out


def replay(case, ctx):
    if 'repo_test' in case:
        return repo_suite_under_monitors(ctx, case['repo_test'])
    judge(ctx, case)
