"""Driver:  ./check <Cnn> <quick|thorough> [--replay FILE]

Splits a check into shards, runs every shard in its own process (subprocess.run
with a timeout, never multiprocessing.Pool), aggregates what the monitors
observed, classifies violations against KNOWN_FINDINGS.txt, writes
evidence/<id>.json and replay files, and turns the result into the three-valued
verdict: exit 0 held / exit 1 VIOLATION / exit 2 INCONCLUSIVE.
"""
from __future__ import annotations
import importlib
import os
import shutil
import subprocess
import sys
import tempfile
import time
from concurrent.futures import ThreadPoolExecutor

from . import jsonx, known

ROOT = os.path.dirname(os.path.dirname(os.path.abspath(__file__)))
NCPU = min(16, os.cpu_count() or 4)
SHARD_TIMEOUT = {'quick': 600, 'thorough': 7200}


def _run_worker(args):
    prop, tier, seed, spec, workdir, i = args
    spec_path = os.path.join(workdir, f'spec{i}.json')
    out_path = os.path.join(workdir, f'out{i}.json')
    jsonx.dump_file(spec, spec_path)
    env = dict(os.environ)
    env['PYTHONHASHSEED'] = '0'
    env['PYTHONDONTWRITEBYTECODE'] = '1'
    env['PYTHONPATH'] = ROOT
    cmd = [sys.executable, '-B', '-m', 'tsverif.worker', prop, tier, str(seed),
           spec_path, out_path]
    try:
        p = subprocess.run(cmd, cwd=ROOT, env=env, capture_output=True,
                           timeout=SHARD_TIMEOUT[tier])
    except subprocess.TimeoutExpired:
        return {'shard_failed': f'shard {i} watchdog timeout'}
    if not os.path.exists(out_path):
        return {'shard_failed': f'shard {i} died rc={p.returncode}: '
                + p.stderr.decode('utf-8', 'replace')[-1500:]}
    res = jsonx.load_file(out_path)
    if p.returncode != 0 and 'harness_error' not in res:
        res['harness_error'] = p.stderr.decode('utf-8', 'replace')[-1500:]
    return res


def aggregate(results):
    agg = {'evaluations': 0, 'counters': {}, 'maxes': {}, 'tables': {},
           'samples': [], 'violations': [], 'viol_counts': {},
           'inconclusive': [], 'exhaustive_parts': [], 'shards': 0,
           'shards_failed': 0, 'nontrivial': set()}
    for r in results:
        if 'shard_failed' in r:
            agg['shards_failed'] += 1
            agg['inconclusive'].append(r['shard_failed'])
            continue
        agg['shards'] += 1
        if 'harness_error' in r:
            agg['inconclusive'].append('harness error: ' + r['harness_error'])
        agg['evaluations'] += r['evaluations']
        for k, v in r['counters'].items():
            agg['counters'][k] = agg['counters'].get(k, 0) + v
        for k, v in r['maxes'].items():
            agg['maxes'][k] = max(agg['maxes'].get(k, v), v)
        for t, d in r['tables'].items():
            tt = agg['tables'].setdefault(t, {})
            for k, v in d.items():
                tt[k] = tt.get(k, 0) + v
        agg['samples'].extend(r['samples'][:2])
        agg['violations'].extend(r['violations'])
        for k, v in r['viol_counts'].items():
            agg['viol_counts'][k] = agg['viol_counts'].get(k, 0) + v
        for x in r['inconclusive']:
            if x not in agg['inconclusive']:
                agg['inconclusive'].append(x)
        for x in r['exhaustive_parts']:
            if x not in agg['exhaustive_parts']:
                agg['exhaustive_parts'].append(x)
        nt = r['nontrivial']
        for j in range(0, len(nt), 8):
            agg['nontrivial'].add(nt[j:j + 8])
    return agg


def _safe(s: str) -> str:
    return ''.join(c if c.isalnum() or c in '-_' else '_' for c in s)[:60]


def run_check(prop: str, tier: str, replay: str | None = None) -> int:
    t0 = time.perf_counter()
    prop = prop.upper()
    seed = int(os.environ.get('VERIF_SEED', '0') or 0)
    mod = importlib.import_module(f'tsverif.props.{prop.lower()}')
    os.makedirs(os.path.join(ROOT, '.work'), exist_ok=True)
    os.makedirs(os.path.join(ROOT, 'evidence'), exist_ok=True)
    os.makedirs(os.path.join(ROOT, 'replay'), exist_ok=True)
    workdir = tempfile.mkdtemp(prefix=f'{prop}-', dir=os.path.join(ROOT, '.work'))
    try:
        if replay:
            rec = jsonx.load_file(replay)
            specs = [{'$replay': rec, 'shard': 'replay'}]
            seed = rec.get('seed', seed)
        else:
            specs = mod.shards(tier, seed)
        jobs = [(prop, tier, seed, s, workdir, i) for i, s in enumerate(specs)]
        with ThreadPoolExecutor(max_workers=NCPU) as ex:
            results = list(ex.map(_run_worker, jobs))
    finally:
        shutil.rmtree(workdir, ignore_errors=True)
    agg = aggregate(results)
    agg['n_specs'] = len(specs)
    if hasattr(mod, 'finalize') and not replay:
        for reason in mod.finalize(agg, tier) or []:
            agg['inconclusive'].append(reason)
    if getattr(mod, 'BUILDER_DEFAULTS', False) and not replay and \
            not agg['counters'].get('monitor.builder_calls_rewritten'):
        agg['inconclusive'].append('no builder call was rewritten (defaults '
                                   'left out / other argument form)')

    # ---- classify violations against the committed known-findings file
    open_findings = known.load_open()
    known_hits, unknown = {}, {}
    for key, n in agg['viol_counts'].items():
        if (prop, key) in open_findings:
            known_hits[key] = n
        else:
            unknown[key] = n
    written = {}
    lines = []
    for v in agg['violations']:
        key = v['key']
        n = written.get(key, 0)
        if key in known_hits:
            if n == 0 and not replay:
                jsonx.dump_file(v, os.path.join(
                    ROOT, 'replay', f'{prop}-{_safe(key)}-known.json'), indent=1)
            written[key] = n + 1
            continue
        if n >= 3:
            continue
        written[key] = n + 1
        rel = os.path.join('replay', f'{prop}-{_safe(key)}-{n}.json')
        if not replay:
            jsonx.dump_file(v, os.path.join(ROOT, rel), indent=1)
        else:
            rel = os.path.relpath(replay, ROOT)
        lines.append(f'VIOLATION property={prop} replay={rel}'
                     f' key={key} :: {v["what"]}')
    for key, n in sorted(known_hits.items()):
        print(f'KNOWN-FINDING: property={prop} key={key} hits={n} '
              f'{open_findings[(prop, key)]}')
    for ln in lines:
        print(ln)

    wall = time.perf_counter() - t0
    n_unknown = sum(unknown.values())
    if not replay:
        cov = {
            'evaluations': agg['evaluations'],
            'distinct_nontrivial': len(agg['nontrivial']),
            'rule': getattr(mod, 'RULE', ''),
            'samples': agg['samples'][:8],
            'exhaustive': bool(agg['exhaustive_parts'])
            and getattr(mod, 'EXHAUSTIVE_IS_WHOLE', False),
            'exhaustive_subspaces': agg['exhaustive_parts'],
            'shards_completed': agg['shards'],
            'shards_failed': agg['shards_failed'],
            'monitor_counters': agg['counters'],
            'monitor_maxima': agg['maxes'],
            'observation_tables': agg['tables'],
            'known_finding_hits': known_hits,
            'violation_keys': unknown,
            'inconclusive_reasons': [r[-400:] for r in agg['inconclusive'][:10]],
        }
        ev = {
            'property_id': prop, 'tier': tier, 'seed': seed,
            'level': 'exploration', 'coverage': cov,
            'assumptions': list(getattr(mod, 'ASSUMPTIONS', [])),
            'wall_s': round(wall, 3), 'violations': n_unknown,
        }
        jsonx.dump_file(ev, os.path.join(ROOT, 'evidence', f'{prop}.json'),
                        indent=1)
    if n_unknown:
        print(f'FAILED property={prop} tier={tier} seed={seed} '
              f'violations={n_unknown} keys={sorted(unknown)} wall={wall:.1f}s')
        return 1
    if agg['inconclusive']:
        for r in agg['inconclusive'][:5]:
            print(f'INCONCLUSIVE property={prop} reason={r.strip()[-600:]}')
        return 2
    print(f'HELD property={prop} tier={tier} seed={seed} '
          f'evaluations={agg["evaluations"]} '
          f'distinct_nontrivial={len(agg["nontrivial"])} '
          f'known_findings={sorted(known_hits)} wall={wall:.1f}s')
    return 0


def main(argv) -> int:
    if len(argv) < 2:
        print(__doc__)
        return 64
    prop = argv[0]
    if argv[1] == '--replay':
        return run_check(prop, 'quick', replay=argv[2])
    tier = argv[1]
    replay = None
    if len(argv) >= 4 and argv[2] == '--replay':
        replay = argv[3]
    if tier not in ('quick', 'thorough'):
        print('tier must be quick or thorough')
        return 64
    return run_check(prop, tier, replay)


if __name__ == '__main__':
    sys.exit(main(sys.argv[1:]))
