"""Builder argument-variant workload (defaults left out, other documented forms).

Every call a check makes to a lock / witness / certificate builder goes
through a proxy of the `tools` module. For a deterministic half of the calls
(by a hash of the builder name and its arguments, so a replay takes the same
decisions) the proxy rewrites the call the way another caller following
docs.md could have written it:

* an argument whose value equals the default printed in docs.md
  (ref/apidefaults.py) is *left out*;
* an argument of a union type (`bytes | VerifyKey`, `bytes | SigningKey`,
  `bytes | Certificate`, `bytes | ScriptProtocol`, lists of those) is passed in
  its other form.

The rewritten call's result is what the check goes on to use, so the check's
own oracle — not a byte comparison — decides whether the lock / witness still
has the semantics the property states: a fallback value other than the
documented one, or a form handled differently, shows up as a wrong verdict of
the lock. If the rewritten call raises where the call as written does not, that
is recorded as a violation of its own (the builder does not produce a result
for a documented input) and the result of the call as written is used.
"""
from __future__ import annotations
import functools

from .ref.apidefaults import DOC, FORMS, REQUIRED


class S:
    last_raise = None       # (exception, builder name, bound arguments)
    candidates = 0
    rewritten = 0
    per_fn: dict = {}
    problems: list = []
    busy = False


class Unencodable(Exception):
    pass


def _enc(v):
    """argument -> replayable plain value"""
    if v is None or isinstance(v, (bool, int, str, bytes)):
        return v
    if isinstance(v, float):
        return v
    if isinstance(v, (list, tuple)):
        return {'__seq__': [_enc(x) for x in v],
                '__tuple__': isinstance(v, tuple)}
    if isinstance(v, dict):
        if all(isinstance(k, str) for k in v):
            return {'__dict__': {k: _enc(x) for k, x in v.items()}}
        if all(isinstance(k, bytes) for k in v):
            return {'__bdict__': [[k, _enc(x)] for k, x in v.items()]}
        raise Unencodable()
    t = type(v).__name__
    if t == 'Script':
        return {'__script__': bytes(v.bytes), 'src': v.src}
    if t in ('SigningKey', 'VerifyKey'):
        return {'__key__': t, 'b': bytes(v)}
    if t == 'Certificate':
        return {'__cert__': v.pack()}
    raise Unencodable()


def _dec(v, tools):
    if isinstance(v, dict):
        if '__seq__' in v:
            x = [_dec(i, tools) for i in v['__seq__']]
            return tuple(x) if v['__tuple__'] else x
        if '__dict__' in v:
            return {k: _dec(x, tools) for k, x in v['__dict__'].items()}
        if '__bdict__' in v:
            return {k: _dec(x, tools) for k, x in v['__bdict__']}
        if '__script__' in v:
            return tools.Script(v['src'], v['__script__'])
        if '__key__' in v:
            import nacl.signing
            return getattr(nacl.signing, v['__key__'])(v['b'])
        if '__cert__' in v:
            return tools.Certificate.unpack(v['__cert__'])
    return v


def canon(v):
    """builder result -> comparable plain value"""
    if v is None or isinstance(v, (bool, int, str, bytes, float)):
        return v
    if isinstance(v, (list, tuple)):
        return [canon(x) for x in v]
    if isinstance(v, dict):
        return sorted(((repr(canon(k)), canon(x)) for k, x in v.items()),
                      key=lambda kv: kv[0])
    if hasattr(v, 'bytes') and hasattr(v, 'src'):
        return bytes(v.bytes)
    if hasattr(v, 'pack'):
        return v.pack()
    if hasattr(v, '__bytes__'):
        return bytes(v)
    return repr(type(v))


NOCHANGE = object()


def _convert(v, kind, tools):
    """the other documented form of an argument (bytes <-> object)"""
    import nacl.signing as ns
    try:
        if kind == 'vkey':
            if type(v) is bytes and len(v) == 32:
                return ns.VerifyKey(v)
            if isinstance(v, ns.VerifyKey):
                return bytes(v)
        elif kind == 'skey':
            if type(v) is bytes and len(v) == 32:
                return ns.SigningKey(v)
            if isinstance(v, ns.SigningKey):
                return bytes(v)
        elif kind in ('vkeys', 'certs'):
            if isinstance(v, (list, tuple)) and v:
                one = 'vkey' if kind == 'vkeys' else 'cert'
                out, changed = [], False
                for i, x in enumerate(v):
                    c = _convert(x, one, tools) if i % 2 == 0 else NOCHANGE
                    changed |= c is not NOCHANGE
                    out.append(x if c is NOCHANGE else c)
                if changed:
                    return type(v)(out)
        elif kind == 'cert':
            # only a byte string that IS a certificate's serialisation has
            # an object form (corrupted ones stay as they are)
            if type(v) is bytes:
                c = tools.Certificate.unpack(v)
                return c if c.pack() == v else NOCHANGE
            if type(v).__name__ == 'Certificate':
                return v.pack()
        elif kind == 'script_or_bytes':
            if type(v) is bytes:
                sc = tools.Script.from_bytes(v)
                return sc if bytes(sc.bytes) == v else NOCHANGE
            if hasattr(v, 'bytes') and hasattr(v, 'src'):
                return bytes(v.bytes)
        elif kind == 'vkeydict':
            if isinstance(v, dict) and v:
                out, changed = {}, False
                for k, x in v.items():
                    c = _convert(k, 'vkey', tools)
                    changed |= c is not NOCHANGE
                    out[k if c is NOCHANGE else c] = x
                if changed:
                    return out
    except BaseException:
        return NOCHANGE
    return NOCHANGE


def _record(kind, name, params, bound, want, got):
    if len(S.problems) >= 40:
        return
    try:
        args = {k: _enc(v) for k, v in bound.items()}
    except Unencodable:
        args = None
    S.problems.append((kind, name, params,
                       {'builder_default': {'fn': name, 'args': args,
                                            'rewritten': params}},
                       want, got))


def _decide(name, bound) -> bool:
    import hashlib
    h = hashlib.blake2b(repr((name, sorted(
        (k, repr(canon(v))) for k, v in bound.items()))).encode(),
        digest_size=2).digest()
    return bool(h[0] & 1)


def _as_written(name, fn, names, a, kw):
    try:
        return fn(*a, **kw)
    except BaseException as e:
        # remembered so that the worker can tell "a builder raised and the
        # check did not expect it" from a failure of the harness itself
        S.last_raise = (e, name, {**dict(zip(names, a)), **kw})
        raise


def escaped_builder_error(exc, ctx) -> bool:
    """called by the worker when an exception ended a shard: if it is the one
    a builder raised for the call as the check wrote it, and no check caught
    it, that is the builder not producing a result for arguments the check
    takes from the documented domain -> a violation, not a harness error"""
    lr = S.last_raise
    if lr is None:
        return False
    e, seen = exc, 0
    while e is not None and seen < 8:
        if e is lr[0]:
            break
        e = e.__cause__ or e.__context__
        seen += 1
    else:
        return False
    if e is None:
        return False
    _, name, bound = lr
    try:
        args = {k: _enc(v) for k, v in bound.items()}
    except Unencodable:
        args = None
    ctx.evaluated()
    ctx.violation(f'builder-raised:{name}', f'{name} raises for arguments '
                  'the check takes from the documented domain (it returned a '
                  'result for them on the tree the check was calibrated on)',
                  {'builder_default': {'fn': name, 'args': args,
                                       'rewritten': [], 'expect': 'result'}},
                  'a result', f'{type(lr[0]).__name__}: {lr[0]}'[:200])
    return True


def _call(name, fn, tools, *a, **kw):
    if S.busy:
        return fn(*a, **kw)
    spec, forms = DOC.get(name), FORMS.get(name)
    names = [p for p, _ in (spec or forms)]
    if len(a) > len(names) or any(k not in names for k in kw):
        return _as_written(name, fn, names, a, kw)
    bound = {**dict(zip(names, a)), **kw}
    # (1) documented default values that could be left out
    cand = [p for p, d in (spec or []) if d is not REQUIRED and p in bound
            and type(bound[p]) is type(d) and bound[p] == d]
    # (2) union-typed arguments in their other documented form
    alt, changed = dict(bound), []
    for p, kind in (forms or []):
        if kind and p in bound and p not in cand:
            c = _convert(bound[p], kind, tools)
            if c is not NOCHANGE:
                alt[p] = c
                changed.append(p)
    if not cand and not changed:
        return _as_written(name, fn, names, a, kw)
    S.candidates += 1
    if not _decide(name, bound):
        return _as_written(name, fn, names, a, kw)
    # positional arguments stay positional up to the first omitted one; the
    # ones after it are passed by their documented names
    first = min([names.index(p) for p in cand] + [len(names)])
    npos = min(first, len(a))
    pos = [alt[names[i]] for i in range(npos)]
    rest = {names[i]: alt[names[i]] for i in range(npos, len(a))
            if names[i] not in cand}
    rest.update({k: alt[k] for k in kw if k not in cand})
    S.busy = True
    try:
        try:
            out = fn(*pos, **rest)
        except BaseException as e:
            try:
                out = fn(*a, **kw)
            except BaseException as e2:
                S.last_raise = (e2, name, dict(bound))
                raise e2 from None          # the call as written raises too
            _record('raises', name, cand + changed, bound, 'a result',
                    f'{type(e).__name__}: {str(e)[:160]}')
            return out
    finally:
        S.busy = False
    S.rewritten += 1
    for tag in ([f'{name}(-{",".join(cand)})'] if cand else []) + \
            ([f'{name}[{",".join(changed)}]'] if changed else []):
        S.per_fn[tag] = S.per_fn.get(tag, 0) + 1
    return out


class ToolsProxy:
    def __init__(self, tools) -> None:
        object.__setattr__(self, '_t', tools)

    def __getattr__(self, name):
        t = object.__getattribute__(self, '_t')
        v = getattr(t, name)
        if (name not in DOC and name not in FORMS) or not callable(v):
            return v
        return functools.partial(_call, name, v, t)

    def __setattr__(self, name, value):
        setattr(object.__getattribute__(self, '_t'), name, value)


def _short(v):
    r = repr(v)
    return r if len(r) < 300 else r[:300] + '...'


def drain(ctx) -> None:
    ctx.count('monitor.builder_calls_rewritable', S.candidates)
    ctx.count('monitor.builder_calls_rewritten', S.rewritten)
    for fn, n in S.per_fn.items():
        ctx.tab('builder_call_rewritten', fn, n)
    for kind, name, params, case, want, got in S.problems:
        ctx.violation(
            f'builder-rejects-documented-call:{name}:{"+".join(params)}',
            f'{name} raises when {params} are left out (documented default) '
            '/ passed in their other documented form, although the same call '
            'with the values spelled out succeeds', case, _short(want),
            _short(got))
    S.candidates = S.rewritten = 0
    S.per_fn, S.problems = {}, []


def replay(case, ctx) -> None:
    from . import env
    real = env.real_tools()
    c = case['builder_default']
    ctx.evaluated()
    if c['args'] is None:
        ctx.inconclusive_because('arguments of the recorded call could not '
                                 'be stored')
        return
    args = {k: _dec(v, real) for k, v in c['args'].items()}
    fn = getattr(ToolsProxy(real), c['fn'])
    env.Clock.now = env.NOW0
    try:
        fn(**args)
    except BaseException as e:
        if c.get('expect') == 'result':
            ctx.violation(f'builder-raised:{c["fn"]}', 'replay', case,
                          'a result', f'{type(e).__name__}: {e}'[:200])
    drain(ctx)
