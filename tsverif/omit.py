"""Builder-default monitor.

Every call a check makes to a lock / witness / certificate builder goes
through a proxy of the `tools` module. Whenever a passed argument equals the
default value printed in docs.md (ref/apidefaults.py), the builder is called a
second time with those arguments *left out*; the builders are pure functions of
their arguments under the pinned clock, so both calls must return the same
script(s). A difference means the value the code falls back to is not the
documented one — a caller who follows the documents gets another lock.

The explicit call is the one whose result the check goes on to use, so the
check's own oracle is unaffected.
"""
from __future__ import annotations
import functools

from .ref.apidefaults import DOC, REQUIRED


class S:
    comparisons = 0
    per_fn: dict = {}
    problems: list = []
    busy = False


class Unencodable(Exception):
    pass


def _enc(v):
    """argument -> replayable plain value"""
    if v is None or isinstance(v, (bool, int, str, bytes)):
        return v
    if isinstance(v, float):
        return v
    if isinstance(v, (list, tuple)):
        return {'__seq__': [_enc(x) for x in v],
                '__tuple__': isinstance(v, tuple)}
    if isinstance(v, dict):
        if all(isinstance(k, str) for k in v):
            return {'__dict__': {k: _enc(x) for k, x in v.items()}}
        if all(isinstance(k, bytes) for k in v):
            return {'__bdict__': [[k, _enc(x)] for k, x in v.items()]}
        raise Unencodable()
    t = type(v).__name__
    if t == 'Script':
        return {'__script__': bytes(v.bytes), 'src': v.src}
    if t in ('SigningKey', 'VerifyKey'):
        return {'__key__': t, 'b': bytes(v)}
    if t == 'Certificate':
        return {'__cert__': v.pack()}
    raise Unencodable()


def _dec(v, tools):
    if isinstance(v, dict):
        if '__seq__' in v:
            x = [_dec(i, tools) for i in v['__seq__']]
            return tuple(x) if v['__tuple__'] else x
        if '__dict__' in v:
            return {k: _dec(x, tools) for k, x in v['__dict__'].items()}
        if '__bdict__' in v:
            return {k: _dec(x, tools) for k, x in v['__bdict__']}
        if '__script__' in v:
            return tools.Script(v['src'], v['__script__'])
        if '__key__' in v:
            import nacl.signing
            return getattr(nacl.signing, v['__key__'])(v['b'])
        if '__cert__' in v:
            return tools.Certificate.unpack(v['__cert__'])
    return v


def canon(v):
    """builder result -> comparable plain value"""
    if v is None or isinstance(v, (bool, int, str, bytes, float)):
        return v
    if isinstance(v, (list, tuple)):
        return [canon(x) for x in v]
    if isinstance(v, dict):
        return sorted(((repr(canon(k)), canon(x)) for k, x in v.items()),
                      key=lambda kv: kv[0])
    if hasattr(v, 'bytes') and hasattr(v, 'src'):
        return bytes(v.bytes)
    if hasattr(v, 'pack'):
        return v.pack()
    if hasattr(v, '__bytes__'):
        return bytes(v)
    return repr(type(v))


def _call(name, fn, spec, tools, *a, **kw):
    if S.busy:
        return fn(*a, **kw)
    names = [p for p, _ in spec]
    out = fn(*a, **kw)                      # what the check asked for
    if len(a) > len(names) or any(k not in names for k in kw):
        return out
    bound = {**dict(zip(names, a)), **kw}
    cand = [p for p, d in spec if d is not REQUIRED and p in bound
            and type(bound[p]) is type(d) and bound[p] == d]
    if not cand:
        return out
    # positional arguments stay positional up to the first omitted one; the
    # ones after it are passed by their documented names
    first = min(names.index(p) for p in cand)
    pos = list(a[:min(first, len(a))])
    rest = {names[i]: a[i] for i in range(first, len(a))
            if names[i] not in cand}
    rest.update({k: v for k, v in kw.items() if k not in cand})
    S.busy = True
    try:
        try:
            alt = fn(*pos, **rest)
            alt_c = canon(alt)
        except BaseException as e:
            alt_c = ('raised', type(e).__name__, str(e)[:120])
    finally:
        S.busy = False
    S.comparisons += 1
    tag = f'{name}({",".join(cand)})'
    S.per_fn[tag] = S.per_fn.get(tag, 0) + 1
    if alt_c != canon(out) and len(S.problems) < 40:
        try:
            case = {'builder_default': {
                'fn': name, 'args': {k: _enc(v) for k, v in bound.items()},
                'omitted': cand}}
        except Unencodable:
            case = {'builder_default': {'fn': name, 'args': None,
                                        'omitted': cand}}
        S.problems.append((name, cand, case, canon(out), alt_c))
    return out


class ToolsProxy:
    def __init__(self, tools) -> None:
        object.__setattr__(self, '_t', tools)

    def __getattr__(self, name):
        t = object.__getattribute__(self, '_t')
        v = getattr(t, name)
        spec = DOC.get(name)
        if spec is None or not callable(v):
            return v
        return functools.partial(_call, name, v, spec, t)

    def __setattr__(self, name, value):
        setattr(object.__getattribute__(self, '_t'), name, value)


def _short(v):
    r = repr(v)
    return r if len(r) < 300 else r[:300] + '...'


def drain(ctx) -> None:
    ctx.count('monitor.builder_default_comparisons', S.comparisons)
    for fn, n in S.per_fn.items():
        ctx.tab('builder_default_compared', fn, n)
    for name, cand, case, want, got in S.problems:
        ctx.violation(f'builder-default-differs:{name}:{"+".join(cand)}',
                      f'{name} called without {cand} does not return what it '
                      'returns for the documented default value(s)', case,
                      _short(want), _short(got))
    S.comparisons, S.per_fn, S.problems = 0, {}, []


def replay(case, ctx) -> None:
    from . import env
    real = env.real_tools()
    c = case['builder_default']
    ctx.evaluated()
    if c['args'] is None:
        ctx.inconclusive_because('arguments of the recorded call could not '
                                 'be stored')
        return
    args = {k: _dec(v, real) for k, v in c['args'].items()}
    fn = getattr(ToolsProxy(real), c['fn'])
    env.Clock.now = env.NOW0
    fn(**args)
    drain(ctx)
